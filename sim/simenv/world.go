package simenv

import (
	"bytes"
	"crypto/sha256"
	"encoding/json"
	"errors"
	"fmt"
	"sort"
	"strconv"
	"strings"

	"github.com/trustbloc/sidetree-core-go/pkg/api/operation"
	"github.com/trustbloc/sidetree-core-go/pkg/api/protocol"
	"github.com/trustbloc/sidetree-core-go/pkg/api/txn"
	"github.com/trustbloc/sidetree-core-go/pkg/encoder"

	"verifsim/simkit"
)

// ---------------------------------------------------------------- CAS

// CAS is a durable content-addressable store with fault hooks.
type CAS struct {
	K     *simkit.Kernel
	Files map[string][]byte
	Order []string
	// Label, when non-empty, makes Write/Read scheduling points.
	Label string
	// WriteFault is consulted before each write (n = number of writes so far, 0-based).
	WriteFault func(n int, content []byte) error
	// ReadFault may replace the content or fail the read.
	ReadFault func(addr string, content []byte, found bool) ([]byte, error)
	Writes    int
	Reads     int
}

// NewCAS creates an empty CAS.
func NewCAS(k *simkit.Kernel, label string) *CAS {
	return &CAS{K: k, Files: map[string][]byte{}, Label: label}
}

// Address is the content address used by the simulated CAS.
func Address(content []byte) string {
	h := sha256.Sum256(content)

	return encoder.EncodeToString(h[:])
}

// Write implements cas.Client.
func (c *CAS) Write(content []byte) (string, error) {
	if c.Label != "" {
		c.K.Yield(c.Label + ".Write")
	}

	n := c.Writes
	c.Writes++

	if c.WriteFault != nil {
		if err := c.WriteFault(n, content); err != nil {
			c.K.Tr.Logf("  %s cas.Write#%d -> injected error", c.K.Cur(), n)

			return "", err
		}
	}

	addr := Address(content)
	if _, ok := c.Files[addr]; !ok {
		c.Files[addr] = append([]byte(nil), content...)
		c.Order = append(c.Order, addr)
	}

	c.K.Tr.Logf("  %s cas.Write#%d %s (%d bytes)", c.K.Cur(), n, addr[:8], len(content))

	return addr, nil
}

// Put stores content directly (Byzantine writers, harness).
func (c *CAS) Put(content []byte) string {
	addr := Address(content)
	if _, ok := c.Files[addr]; !ok {
		c.Files[addr] = append([]byte(nil), content...)
		c.Order = append(c.Order, addr)
	}

	return addr
}

// Read implements cas.Client / txnprovider.DCAS.
func (c *CAS) Read(addr string) ([]byte, error) {
	if c.Label != "" {
		c.K.Yield(c.Label + ".Read")
	}

	c.Reads++

	content, ok := c.Files[addr]
	if c.ReadFault != nil {
		b, err := c.ReadFault(addr, content, ok)
		if err != nil {
			return nil, err
		}

		if b != nil {
			return b, nil
		}
	}

	if !ok {
		return nil, fmt.Errorf("content not found: %s", addr)
	}

	return append([]byte(nil), content...), nil
}

// ---------------------------------------------------------------- ledger

// Ledger is the anchoring system: it orders anchor strings into transactions and hands
// notifications to observers when the scheduler says so.
type Ledger struct {
	K     *simkit.Kernel
	Label string
	Now   func() uint64
	Txns  []txn.SidetreeTxn
	Refs  [][]*operation.Reference
	// AnchorFault is consulted before a write; a failure is atomic (nothing is written).
	AnchorFault func(n int) error
	// OnAnchor is called (inline, scheduler-neutral) after a successful write.
	OnAnchor func(t *txn.SidetreeTxn, refs []*operation.Reference)
	// NumberFn assigns the transaction number (default: position).
	NumberFn  func(seq int, time uint64) uint64
	Namespace string
	Calls     int

	subs []*Subscription
}

// Subscription is one observer's notification channel with its delivery cursor.
type Subscription struct {
	Ch     chan []txn.SidetreeTxn
	Cursor int
}

// NewLedger creates a ledger.
func NewLedger(k *simkit.Kernel, label, ns string, now func() uint64) *Ledger {
	return &Ledger{K: k, Label: label, Namespace: ns, Now: now}
}

// WriteAnchor implements batch.AnchorWriter.
func (l *Ledger) WriteAnchor(anchor string, _ []*protocol.AnchorDocument, refs []*operation.Reference, version uint64) error {
	if l.Label != "" {
		l.K.Yield(l.Label + ".WriteAnchor")
	}

	n := l.Calls
	l.Calls++

	if l.AnchorFault != nil {
		if err := l.AnchorFault(n); err != nil {
			l.K.Tr.Logf("  %s anchor.Write#%d -> injected error", l.K.Cur(), n)

			return err
		}
	}

	l.Append(anchor, refs, version)

	return nil
}

// AppendNS adds a transaction under another namespace.
func (l *Ledger) AppendNS(ns, anchor string, version uint64) *txn.SidetreeTxn {
	t := l.Append(anchor, nil, version)
	t.Namespace = ns

	return t
}

// Append adds a transaction (also used by Byzantine writers).
func (l *Ledger) Append(anchor string, refs []*operation.Reference, version uint64) *txn.SidetreeTxn {
	seq := len(l.Txns)
	now := l.Now()
	num := uint64(seq)

	if l.NumberFn != nil {
		num = l.NumberFn(seq, now)
	}

	t := txn.SidetreeTxn{
		TransactionTime:      now,
		TransactionNumber:    num,
		AnchorString:         anchor,
		Namespace:            l.Namespace,
		ProtocolVersion:      version,
		CanonicalReference:   fmt.Sprintf("cref%d", seq),
		EquivalentReferences: []string{fmt.Sprintf("eref%d-a", seq), fmt.Sprintf("eref%d-b", seq)},
	}

	sorted := append([]*operation.Reference(nil), refs...)
	sort.Slice(sorted, func(i, j int) bool { return sorted[i].UniqueSuffix < sorted[j].UniqueSuffix })

	l.Txns = append(l.Txns, t)
	l.Refs = append(l.Refs, sorted)

	l.K.Tr.Logf("  %s anchor.Write txn#%d t=%d n=%d v=%d anchor=%s", l.K.Cur(), seq, t.TransactionTime, t.TransactionNumber, version, short(anchor))

	if l.OnAnchor != nil {
		l.K.Inline(func() { l.OnAnchor(&l.Txns[seq], sorted) })
	}

	return &l.Txns[seq]
}

func short(s string) string {
	if len(s) > 14 {
		return s[:14]
	}

	return s
}

// Read implements batch.AnchorWriter (unused by the writer).
func (l *Ledger) Read(int) (bool, *txn.SidetreeTxn) { return false, nil }

// Subscribe creates a notification channel (observer.Ledger is implemented by SubLedger).
func (l *Ledger) Subscribe() *Subscription {
	s := &Subscription{Ch: make(chan []txn.SidetreeTxn, 1)}
	l.subs = append(l.subs, s)

	return s
}

// SubLedger adapts one subscription to observer.Ledger.
type SubLedger struct{ S *Subscription }

// RegisterForSidetreeTxn implements observer.Ledger.
func (s SubLedger) RegisterForSidetreeTxn() <-chan []txn.SidetreeTxn { return s.S.Ch }

// ---------------------------------------------------------------- operation store

// OpStore is the durable operation store, keyed like a unique index on (suffix, time, number).
type OpStore struct {
	K     *simkit.Kernel
	Label string
	Ops   map[string][]*operation.AnchoredOperation
	// Puts records every Put call (the batch as handed over).
	Puts [][]*operation.AnchoredOperation
	// PutFault can fail a Put (nothing stored).
	PutFault func(n int) error
	// Permute, when set, chooses the order Get returns operations in.
	Permute func(n int) []int
	PutN    int
	// OnPut is called (inline) after a successful Put with the stored batch.
	OnPut func(ops []*operation.AnchoredOperation)
	// Shared: Get hands out the store's own slice (as an in-memory or caching store does, the repository's mock store
	// among them) instead of fresh copies - a caller that appends to it or sorts it in place changes the store.
	Shared bool
}

// NewOpStore creates an empty store.
func NewOpStore(k *simkit.Kernel, label string) *OpStore {
	return &OpStore{K: k, Label: label, Ops: map[string][]*operation.AnchoredOperation{}}
}

// Put implements the observer / txnprocessor OperationStore.
func (s *OpStore) Put(ops []*operation.AnchoredOperation) error {
	if s.Label != "" {
		s.K.Yield(s.Label + ".Put")
	}

	n := s.PutN
	s.PutN++

	if s.PutFault != nil {
		if err := s.PutFault(n); err != nil {
			s.K.Tr.Logf("  %s store.Put#%d -> injected error", s.K.Cur(), n)

			return err
		}
	}

	cp := make([]*operation.AnchoredOperation, len(ops))
	for i, op := range ops {
		c := *op
		cp[i] = &c
		s.insert(&c)
	}

	s.Puts = append(s.Puts, cp)
	s.K.Tr.Logf("  %s store.Put#%d %d ops", s.K.Cur(), n, len(ops))

	if s.OnPut != nil {
		s.K.Inline(func() { s.OnPut(cp) })
	}

	return nil
}

func (s *OpStore) insert(op *operation.AnchoredOperation) {
	list := s.Ops[op.UniqueSuffix]
	for i, e := range list {
		if e.TransactionTime == op.TransactionTime && e.TransactionNumber == op.TransactionNumber {
			list[i] = op

			return
		}
	}

	s.Ops[op.UniqueSuffix] = append(list, op)
}

// Insert adds one operation directly (world A).
func (s *OpStore) Insert(op *operation.AnchoredOperation) { s.insert(op) }

// Get implements processor.OperationStoreClient. Every call returns fresh copies, in the order
// chosen by Permute.
func (s *OpStore) Get(suffix string) ([]*operation.AnchoredOperation, error) {
	if s.Label != "" {
		s.K.Yield(s.Label + ".Get")
	}

	list := s.Ops[suffix]
	if len(list) == 0 {
		return nil, errors.New("uniqueSuffix not found in the store")
	}

	if s.Shared {
		return list, nil
	}

	out := make([]*operation.AnchoredOperation, len(list))

	var perm []int
	if s.Permute != nil {
		perm = s.Permute(len(list))
	}

	for i := range list {
		j := i
		if perm != nil {
			j = perm[i]
		}

		c := *list[j]
		out[i] = &c
	}

	return out, nil
}

// ---------------------------------------------------------------- unpublished store

// Unpub is the unpublished-operation store.
type Unpub struct {
	K     *simkit.Kernel
	Label string
	Ops   map[string][]*operation.AnchoredOperation
	Fault func(op string) error
	// PerSuffix: the store holds at most ONE pending operation per DID and is keyed by the DID suffix alone - Put refuses
	// a second one, Delete/DeleteAll remove whatever is pending for the suffix (the semantics of stores that index
	// pending operations by DID).
	PerSuffix bool
	// DeleteAllN counts the clean-ups after a stored transaction (DeleteAll calls that went through).
	DeleteAllN int
}

// NewUnpub creates an empty unpublished store.
func NewUnpub(k *simkit.Kernel, label string) *Unpub {
	return &Unpub{K: k, Label: label, Ops: map[string][]*operation.AnchoredOperation{}}
}

func (u *Unpub) fault(op string) error {
	if u.Label != "" {
		u.K.Yield(u.Label + "." + op)
	}

	if u.Fault != nil {
		return u.Fault(op)
	}

	return nil
}

// Put stores an unpublished operation.
func (u *Unpub) Put(op *operation.AnchoredOperation) error {
	if err := u.fault("Put"); err != nil {
		return err
	}

	if u.PerSuffix && len(u.Ops[op.UniqueSuffix]) > 0 {
		return errors.New("a pending operation already exists for this DID")
	}

	c := *op
	u.Ops[op.UniqueSuffix] = append(u.Ops[op.UniqueSuffix], &c)

	return nil
}

// Delete removes one unpublished operation (matched by request bytes).
func (u *Unpub) Delete(op *operation.AnchoredOperation) error {
	if err := u.fault("Delete"); err != nil {
		return err
	}

	u.remove(op)

	return nil
}

func (u *Unpub) remove(op *operation.AnchoredOperation) {
	if u.PerSuffix {
		delete(u.Ops, op.UniqueSuffix)

		return
	}

	list := u.Ops[op.UniqueSuffix]
	for i, e := range list {
		if e.Type == op.Type && string(e.OperationRequest) == string(op.OperationRequest) {
			u.Ops[op.UniqueSuffix] = append(list[:i:i], list[i+1:]...)

			break
		}
	}

	if len(u.Ops[op.UniqueSuffix]) == 0 {
		delete(u.Ops, op.UniqueSuffix)
	}
}

// DeleteAll removes the given operations.
func (u *Unpub) DeleteAll(ops []*operation.AnchoredOperation) error {
	if err := u.fault("DeleteAll"); err != nil {
		return err
	}

	u.DeleteAllN++

	for _, op := range ops {
		u.remove(op)
	}

	return nil
}

// Get returns the unpublished operations of a suffix.
func (u *Unpub) Get(suffix string) ([]*operation.AnchoredOperation, error) {
	// a scheduling point of its own: a resolution reads two stores, and the observer may move an operation from one to
	// the other between the two reads
	if u.Label != "" {
		u.K.Yield(u.Label + ".Get")
	}

	list := u.Ops[suffix]
	if len(list) == 0 {
		return nil, errors.New("not found")
	}

	out := make([]*operation.AnchoredOperation, len(list))
	for i, e := range list {
		c := *e
		out[i] = &c
	}

	return out, nil
}

// Size is the number of stored unpublished operations.
func (u *Unpub) Size() int {
	n := 0
	for _, l := range u.Ops {
		n += len(l)
	}

	return n
}

// ---------------------------------------------------------------- misc

// SimTimeValidator is the server-time validator: it reads the simulated clock and records the
// window it was handed.
type SimTimeValidator struct {
	Now   func() int64
	Calls []([2]int64)
	Keep  bool
}

// ErrExpired / ErrEarly are set by the world to the parser's sentinel errors.
var (
	ErrExpired error
	ErrEarly   error
)

// Validate implements operationparser.TimeValidator.
func (v *SimTimeValidator) Validate(from, until int64) error {
	if v.Keep {
		v.Calls = append(v.Calls, [2]int64{from, until})
	}

	if from == 0 && until == 0 {
		return nil
	}

	now := v.Now()
	if from > now {
		return ErrEarly
	}

	if until < now {
		return ErrExpired
	}

	return nil
}

// ReqKey identifies an operation request independent of JSON spelling (member order, whitespace, escapes):
// the request is decoded and re-encoded with sorted member names before hashing.
func ReqKey(req []byte) string {
	var v interface{}

	dec := json.NewDecoder(bytes.NewReader(req))
	dec.UseNumber()

	if err := dec.Decode(&v); err == nil {
		if b, err := json.Marshal(normNumbers(v)); err == nil {
			req = b
		}
	}

	h := sha256.Sum256(req)

	return fmt.Sprintf("%x", h[:8])
}

// normNumbers gives every number one spelling: integers that fit int64 keep their digits (no rounding through a
// float), all other numbers are spelt as the float64 they denote (1e20 and 100000000000000000000 are one number).
func normNumbers(v interface{}) interface{} {
	switch x := v.(type) {
	case json.Number:
		if _, err := strconv.ParseInt(string(x), 10, 64); err == nil {
			return x
		}

		if f, err := x.Float64(); err == nil {
			return json.Number(strconv.FormatFloat(f, 'g', -1, 64))
		}

		return x
	case map[string]interface{}:
		for k, e := range x {
			x[k] = normNumbers(e)
		}
	case []interface{}:
		for i, e := range x {
			x[i] = normNumbers(e)
		}
	}

	return v
}

// JoinRefs renders references for traces.
func JoinRefs(refs []*operation.Reference) string {
	var parts []string
	for _, r := range refs {
		parts = append(parts, fmt.Sprintf("%s:%s", r.Type, short(r.UniqueSuffix)))
	}

	return strings.Join(parts, ",")
}
