package simenv

import (
	"fmt"
	"strings"

	"github.com/trustbloc/sidetree-core-go/pkg/api/operation"
	"github.com/trustbloc/sidetree-core-go/pkg/batch/cutter"

	"verifsim/simkit"
)

// QItem is the model's view of a queued operation.
type QItem struct {
	Key     string
	Suffix  string
	Version uint64
}

// QueueProxy wraps the real operation queue. Every method is a scheduling point, and because
// the kernel serialises tasks, every call executes atomically: the linearisation order is the
// execution order, so the real queue is compared step by step with a sequential
// FIFO-with-in-flight model (no search for a linearisation is needed).
type QueueProxy struct {
	K     *simkit.Kernel
	Label string
	Real  cutter.OperationQueue
	Prop  string

	Model    []QItem
	InFlight []QItem
	HasInFl  bool

	// AddFault may refuse an Add before it reaches the queue.
	AddFault func() error
	OnAdd    func(it QItem)
	OnRemove func(items []QItem, requested uint, modelBefore []QItem)
	OnAck    func(items []QItem)
	OnNack   func(items []QItem)
	// OnSeam sees every Len/Peek/Remove call when it starts executing (harness bookkeeping).
	OnSeam func(method string)
}

func item(op *operation.QueuedOperation, version uint64) QItem {
	return QItem{Key: ReqKey(op.OperationRequest), Suffix: op.UniqueSuffix, Version: version}
}

func keys(items []QItem) string {
	var s []string
	for _, it := range items {
		s = append(s, it.Key[:6])
	}

	return "[" + strings.Join(s, " ") + "]"
}

func (q *QueueProxy) fail(oracle, detail string) {
	q.K.Fail(&simkit.Violation{Property: q.Prop, Oracle: "queue/" + oracle, Detail: detail, Fingerprint: q.Prop + "/queue/" + oracle})
}

// Add implements cutter.OperationQueue.
func (q *QueueProxy) Add(op *operation.QueuedOperation, version uint64) (uint, error) {
	q.K.Yield(q.Label + ".Add")

	if q.AddFault != nil {
		if err := q.AddFault(); err != nil {
			q.K.Tr.Logf("  %s q.Add -> injected error", q.K.Cur())

			return 0, err
		}
	}

	n, err := q.Real.Add(op, version)
	if err != nil {
		return n, err
	}

	it := item(op, version)
	q.Model = append(q.Model, it)
	q.K.Tr.Logf("  %s q.Add %s v=%d -> len %d", q.K.Cur(), it.Key[:6], version, n)

	if int(n) != len(q.Model) {
		q.fail("add-len", fmt.Sprintf("Add returned length %d, sequential queue has %d", n, len(q.Model)))
	}

	if q.OnAdd != nil {
		q.OnAdd(it)
	}

	q.compare("after Add")

	return n, nil
}

// Peek implements cutter.OperationQueue.
func (q *QueueProxy) Peek(num uint) (operation.QueuedOperationsAtTime, error) {
	q.K.Yield(q.Label + ".Peek")

	if q.OnSeam != nil {
		q.OnSeam("Peek")
	}

	ops, err := q.Real.Peek(num)
	if err != nil {
		return ops, err
	}

	want := q.prefix(num)
	if got := toItems(ops); !sameItems(got, want) {
		q.fail("peek", fmt.Sprintf("Peek(%d) returned %s, head of queue is %s", num, keys(got), keys(want)))
	}

	return ops, nil
}

// Len implements cutter.OperationQueue.
func (q *QueueProxy) Len() uint {
	q.K.Yield(q.Label + ".Len")

	if q.OnSeam != nil {
		q.OnSeam("Len")
	}

	n := q.Real.Len()
	if int(n) != len(q.Model) {
		q.fail("len", fmt.Sprintf("Len returned %d, sequential queue has %d", n, len(q.Model)))
	}

	return n
}

// Remove implements cutter.OperationQueue.
func (q *QueueProxy) Remove(num uint) (operation.QueuedOperationsAtTime, func() uint, func(error), error) {
	q.K.Yield(q.Label + ".Remove")

	if q.OnSeam != nil {
		q.OnSeam("Remove")
	}

	ops, ack, nack, err := q.Real.Remove(num)
	if err != nil {
		return ops, ack, nack, err
	}

	before := append([]QItem(nil), q.Model...)
	want := q.prefix(num)
	got := toItems(ops)

	q.K.Tr.Logf("  %s q.Remove(%d) -> %s", q.K.Cur(), num, keys(got))

	if !sameItems(got, want) {
		q.fail("remove-fifo", fmt.Sprintf("Remove(%d) returned %s, head of queue is %s", num, keys(got), keys(want)))
	}

	if q.HasInFl {
		q.fail("remove-overlap", "Remove while a previous batch is neither acked nor nacked")
	}

	q.Model = q.Model[len(want):]
	q.InFlight = got
	q.HasInFl = true

	if q.OnRemove != nil {
		q.OnRemove(got, num, before)
	}

	q.compare("after Remove")

	taken := got
	acked, nacked := false, false

	return ops,
		func() uint {
			q.K.Yield(q.Label + ".ack")

			if nacked {
				q.fail("ack-after-nack", "a removal that was rolled back (nack) was then committed (ack): "+keys(taken))
			}

			acked = true

			n := ack()
			q.K.Tr.Logf("  %s q.ack %s -> pending %d", q.K.Cur(), keys(taken), n)
			q.HasInFl = false
			q.InFlight = nil

			if int(n) != len(q.Model) {
				q.fail("ack-pending", fmt.Sprintf("ack returned %d pending, sequential queue has %d", n, len(q.Model)))
			}

			if q.OnAck != nil {
				q.OnAck(taken)
			}

			q.compare("after ack")

			return n
		},
		func(e error) {
			q.K.Yield(q.Label + ".nack")

			if acked {
				// the interface contract: ack commits the removal, nack rolls it back - never both. (With the in-memory
				// queue the second call happens to restore the items; with a durable queue they would be gone.)
				q.fail("nack-after-ack", "a removal that was committed (ack) was then rolled back (nack): "+keys(taken))
			}

			nacked = true

			nack(e)
			q.K.Tr.Logf("  %s q.nack %s", q.K.Cur(), keys(taken))
			q.HasInFl = false
			q.InFlight = nil
			q.Model = append(append([]QItem(nil), taken...), q.Model...)

			if q.OnNack != nil {
				q.OnNack(taken)
			}

			q.compare("after nack")
		}, nil
}

func (q *QueueProxy) prefix(num uint) []QItem {
	n := int(num)
	if n > len(q.Model) || n < 0 {
		n = len(q.Model)
	}

	return q.Model[:n]
}

// compare checks the whole real queue against the model.
func (q *QueueProxy) compare(when string) {
	ops, err := q.Real.Peek(1 << 30)
	if err != nil {
		return
	}

	if got := toItems(ops); !sameItems(got, q.Model) {
		q.fail("content", fmt.Sprintf("%s: queue holds %s, sequential queue holds %s", when, keys(got), keys(q.Model)))
	}
}

// Contents returns the real queue's content (harness use, no scheduling point).
func (q *QueueProxy) Contents() []QItem {
	ops, _ := q.Real.Peek(1 << 30)

	return toItems(ops)
}

func toItems(ops operation.QueuedOperationsAtTime) []QItem {
	out := make([]QItem, len(ops))
	for i, op := range ops {
		out[i] = QItem{Key: ReqKey(op.OperationRequest), Suffix: op.UniqueSuffix, Version: op.ProtocolVersion}
	}

	return out
}

func sameItems(a, b []QItem) bool {
	if len(a) != len(b) {
		return false
	}

	for i := range a {
		if a[i] != b[i] {
			return false
		}
	}

	return true
}
