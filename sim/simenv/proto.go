// Package simenv holds the simulated outside world: protocol versions assembled from the real
// 1_0 components, CAS, ledger, operation store, unpublished store and the queue proxy.
package simenv

import (
	"fmt"
	"sort"

	"github.com/trustbloc/sidetree-core-go/pkg/api/cas"
	"github.com/trustbloc/sidetree-core-go/pkg/api/operation"
	"github.com/trustbloc/sidetree-core-go/pkg/api/protocol"
	"github.com/trustbloc/sidetree-core-go/pkg/compression"
	"github.com/trustbloc/sidetree-core-go/pkg/versions/1_0/doccomposer"
	"github.com/trustbloc/sidetree-core-go/pkg/versions/1_0/doctransformer/didtransformer"
	"github.com/trustbloc/sidetree-core-go/pkg/versions/1_0/docvalidator/didvalidator"
	"github.com/trustbloc/sidetree-core-go/pkg/versions/1_0/operationapplier"
	"github.com/trustbloc/sidetree-core-go/pkg/versions/1_0/operationparser"
	"github.com/trustbloc/sidetree-core-go/pkg/versions/1_0/txnprocessor"
	"github.com/trustbloc/sidetree-core-go/pkg/versions/1_0/txnprovider"

	"verifsim/simkit"
)

// Multihash codes.
const (
	SHA2_256 = 18
	SHA2_512 = 19
)

// DefaultProtocol returns baseline parameters; worlds override fields per run.
func DefaultProtocol(genesis uint64) protocol.Protocol {
	return protocol.Protocol{
		GenesisTime:                  genesis,
		MultihashAlgorithms:          []uint{SHA2_256},
		MaxOperationCount:            4,
		MaxOperationSize:             4000,
		MaxOperationHashLength:       100,
		MaxDeltaSize:                 2000,
		MaxCasURILength:              100,
		CompressionAlgorithm:         "GZIP",
		MaxChunkFileSize:             40000,
		MaxProvisionalIndexFileSize:  40000,
		MaxCoreIndexFileSize:         40000,
		MaxProofFileSize:             40000,
		SignatureAlgorithms:          []string{"EdDSA", "ES256", "ES384", "ES512", "ES256K"},
		KeyAlgorithms:                []string{"Ed25519", "P-256", "P-384", "P-521", "secp256k1"},
		Patches:                      []string{"replace", "add-public-keys", "remove-public-keys", "add-services", "remove-services", "ietf-json-patch", "add-also-known-as", "remove-also-known-as"},
		MaxOperationTimeDelta:        7200,
		NonceSize:                    16,
		MaxMemoryDecompressionFactor: 3,
	}
}

// HandlerCall records one PrepareTxnFiles call (input and outcome).
type HandlerCall struct {
	Ops  []*operation.QueuedOperation
	Info *protocol.AnchoringInfo
	Err  error
}

// Version is a protocol.Version assembled from the real 1_0 components.
type Version struct {
	P           protocol.Protocol
	Parser      *operationparser.Parser
	Applier     *operationapplier.Applier
	Composer    *doccomposer.DocumentComposer
	Handler     protocol.OperationHandler
	Provider    protocol.OperationProvider
	TxProcessor protocol.TxnProcessor
	Validator   protocol.DocumentValidator
	Transformer protocol.DocumentTransformer

	// OnHandler, when set, is told about every PrepareTxnFiles call.
	OnHandler func(c *HandlerCall)
	// OnBefore, when set, is called before PrepareTxnFiles starts.
	OnBefore func(ops []*operation.QueuedOperation)
}

// VersionDeps are the outside-world pieces a version is wired to.
type VersionDeps struct {
	CAS           cas.Client
	Compression   *CompressionProxy
	TimeValidator operationparser.TimeValidator
	OpStore       txnprocessor.OperationStore
	Unpublished   UnpublishedStore
	UnpubTypes    []operation.Type
	TransformOpts []didtransformer.Option
	SourceFmt     func(casURI, source string) (string, error)
}

// UnpublishedStore is the union of the unpublished-store option interfaces.
type UnpublishedStore interface {
	Put(op *operation.AnchoredOperation) error
	Delete(op *operation.AnchoredOperation) error
	DeleteAll(ops []*operation.AnchoredOperation) error
	Get(uniqueSuffix string) ([]*operation.AnchoredOperation, error)
}

type nopMetrics struct{}

func (nopMetrics) CASWriteSize(string, int) {}

// NewVersion wires a version from real components.
func NewVersion(p protocol.Protocol, d *VersionDeps) *Version {
	var popts []operationparser.Option
	if d.TimeValidator != nil {
		popts = append(popts, operationparser.WithAnchorTimeValidator(d.TimeValidator))
	}

	parser := operationparser.New(p, popts...)
	dc := doccomposer.New()
	v := &Version{
		P:           p,
		Parser:      parser,
		Composer:    dc,
		Applier:     operationapplier.New(p, parser, dc),
		Validator:   didvalidator.New(),
		Transformer: didtransformer.New(d.TransformOpts...),
	}

	cp := d.Compression
	if cp == nil {
		cp = NewCompressionProxy(nil)
	}

	if d.CAS != nil {
		v.Handler = &handlerProxy{v: v, real: txnprovider.NewOperationHandler(p, d.CAS, cp, parser, nopMetrics{})}

		var opts []txnprovider.Opt
		if d.SourceFmt != nil {
			opts = append(opts, txnprovider.WithSourceCASURIFormatter(d.SourceFmt))
		}

		v.Provider = txnprovider.NewOperationProvider(p, parser, d.CAS, cp, opts...)
	}

	if d.OpStore != nil && v.Provider != nil {
		var topts []txnprocessor.Option
		if d.Unpublished != nil {
			topts = append(topts, txnprocessor.WithUnpublishedOperationStore(d.Unpublished, d.UnpubTypes))
		}

		v.TxProcessor = txnprocessor.New(&txnprocessor.Providers{OpStore: d.OpStore, OperationProtocolProvider: v.Provider}, topts...)
	}

	return v
}

type handlerProxy struct {
	v    *Version
	real *txnprovider.OperationHandler
}

func (h *handlerProxy) PrepareTxnFiles(ops []*operation.QueuedOperation) (*protocol.AnchoringInfo, error) {
	if h.v.OnBefore != nil {
		h.v.OnBefore(ops)
	}

	info, err := h.real.PrepareTxnFiles(ops)
	if h.v.OnHandler != nil {
		h.v.OnHandler(&HandlerCall{Ops: ops, Info: info, Err: err})
	}

	return info, err
}

// Version implements protocol.Version.
func (v *Version) Version() string                               { return "1.0" }
func (v *Version) Protocol() protocol.Protocol                   { return v.P }
func (v *Version) TransactionProcessor() protocol.TxnProcessor   { return v.TxProcessor }
func (v *Version) OperationParser() protocol.OperationParser     { return v.Parser }
func (v *Version) OperationApplier() protocol.OperationApplier   { return v.Applier }
func (v *Version) OperationHandler() protocol.OperationHandler   { return v.Handler }
func (v *Version) OperationProvider() protocol.OperationProvider { return v.Provider }
func (v *Version) DocumentComposer() protocol.DocumentComposer   { return v.Composer }
func (v *Version) DocumentValidator() protocol.DocumentValidator { return v.Validator }
func (v *Version) DocumentTransformer() protocol.DocumentTransformer {
	return v.Transformer
}

// ProtoClient is a protocol.Client over a sorted list of versions. Current() is the latest
// version whose genesis time has been reached on the simulated ledger clock.
type ProtoClient struct {
	K        *simkit.Kernel
	Versions []*Version
	Now      func() uint64
	// YieldLabel, when non-empty, makes Current/Get scheduling points.
	YieldLabel string
	// Namespace, when set, is the only namespace ForNamespace knows.
	Namespace string
	// OnCurrent, when set, sees every answer of Current (harness bookkeeping: which version did the caller act on?).
	OnCurrent func(v *Version)
	// FailCurrent, when set, may make Current fail (the protocol client of a deployment reads its configuration from
	// somewhere and may be unavailable).
	FailCurrent func() error
}

// NewProtoClient sorts versions by genesis time.
func NewProtoClient(k *simkit.Kernel, now func() uint64, versions ...*Version) *ProtoClient {
	sort.Slice(versions, func(i, j int) bool { return versions[i].P.GenesisTime < versions[j].P.GenesisTime })

	return &ProtoClient{K: k, Versions: versions, Now: now}
}

// Current implements protocol.Client.
func (c *ProtoClient) Current() (protocol.Version, error) {
	if c.YieldLabel != "" {
		c.K.Yield(c.YieldLabel + ".Current")
	}

	if c.FailCurrent != nil {
		if err := c.FailCurrent(); err != nil {
			return nil, err
		}
	}

	v, err := c.at(c.Now())
	if err == nil && c.OnCurrent != nil {
		c.OnCurrent(v.(*Version))
	}

	return v, err
}

// CurrentVersion is Current without a scheduling point (harness use).
func (c *ProtoClient) CurrentVersion() *Version {
	v, err := c.at(c.Now())
	if err != nil {
		return c.Versions[0]
	}

	return v.(*Version)
}

// Get implements protocol.Client.
func (c *ProtoClient) Get(t uint64) (protocol.Version, error) {
	return c.at(t)
}

func (c *ProtoClient) at(t uint64) (protocol.Version, error) {
	for i := len(c.Versions) - 1; i >= 0; i-- {
		if t >= c.Versions[i].P.GenesisTime {
			return c.Versions[i], nil
		}
	}

	return nil, fmt.Errorf("protocol parameters are not defined for anchoring time: %d", t)
}

// ForNamespace implements protocol.ClientProvider. With Namespace set, other namespaces are unknown.
func (c *ProtoClient) ForNamespace(ns string) (protocol.Client, error) {
	if c.Namespace != "" && ns != c.Namespace {
		return nil, fmt.Errorf("protocol client not found for namespace [%s]", ns)
	}

	return c, nil
}

// CompressionProxy wraps the real gzip registry; Fail can inject compression errors.
type CompressionProxy struct {
	reg  *compression.Registry
	Fail func(op string) error
}

// NewCompressionProxy creates the proxy.
func NewCompressionProxy(fail func(op string) error) *CompressionProxy {
	return &CompressionProxy{reg: compression.New(compression.WithDefaultAlgorithms()), Fail: fail}
}

// Compress implements the handler's compression provider.
func (c *CompressionProxy) Compress(alg string, data []byte) ([]byte, error) {
	if c.Fail != nil {
		if err := c.Fail("compress"); err != nil {
			return nil, err
		}
	}

	return c.reg.Compress(alg, data)
}

// Decompress implements the provider's decompression provider.
func (c *CompressionProxy) Decompress(alg string, data []byte) ([]byte, error) {
	if c.Fail != nil {
		if err := c.Fail("decompress"); err != nil {
			return nil, err
		}
	}

	return c.reg.Decompress(alg, data)
}
