module verifsim

go 1.26

require (
	github.com/btcsuite/btcd v0.22.0-beta
	github.com/btcsuite/btcutil v1.0.3-0.20201208143702-a53e38424cce
	github.com/gorilla/mux v1.8.0
	github.com/multiformats/go-multibase v0.0.1
	github.com/trustbloc/logutil-go v1.0.0-rc1
	github.com/trustbloc/sidetree-core-go v0.0.0
)

require (
	github.com/evanphx/json-patch v4.1.0+incompatible // indirect
	github.com/minio/blake2b-simd v0.0.0-20160723061019-3f5f724cb5b1 // indirect
	github.com/minio/sha256-simd v0.1.1 // indirect
	github.com/mr-tron/base58 v1.2.0 // indirect
	github.com/multiformats/go-base32 v0.0.3 // indirect
	github.com/multiformats/go-multihash v0.0.14 // indirect
	github.com/multiformats/go-varint v0.0.6 // indirect
	github.com/pkg/errors v0.9.1 // indirect
	github.com/spaolacci/murmur3 v1.1.0 // indirect
	github.com/square/go-jose/v3 v3.0.0-20200630053402-0a67ce9b0693 // indirect
	go.opentelemetry.io/otel v1.12.0 // indirect
	go.opentelemetry.io/otel/trace v1.12.0 // indirect
	go.uber.org/atomic v1.7.0 // indirect
	go.uber.org/multierr v1.6.0 // indirect
	go.uber.org/zap v1.23.0 // indirect
	golang.org/x/crypto v0.1.0 // indirect
	golang.org/x/sys v0.1.0 // indirect
)

replace github.com/trustbloc/sidetree-core-go => /repo
