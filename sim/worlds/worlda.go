package worlds

import (
	"encoding/json"
	"fmt"
	"hash/fnv"
	"net/http"
	"net/http/httptest"
	"net/url"
	"runtime/debug"
	"sort"
	"strings"
	"time"

	"github.com/gorilla/mux"
	"github.com/trustbloc/sidetree-core-go/pkg/api/operation"
	"github.com/trustbloc/sidetree-core-go/pkg/api/protocol"
	"github.com/trustbloc/sidetree-core-go/pkg/canonicalizer"

	"github.com/trustbloc/sidetree-core-go/pkg/document"
	"github.com/trustbloc/sidetree-core-go/pkg/hashing"
	"github.com/trustbloc/sidetree-core-go/pkg/mocks"
	"github.com/trustbloc/sidetree-core-go/pkg/patch"
	"github.com/trustbloc/sidetree-core-go/pkg/processor"
	restdoc "github.com/trustbloc/sidetree-core-go/pkg/restapi/dochandler"
	"github.com/trustbloc/sidetree-core-go/pkg/versions/1_0/doctransformer/didtransformer"
	"github.com/trustbloc/sidetree-core-go/pkg/versions/1_0/doctransformer/metadata"
	"github.com/trustbloc/sidetree-core-go/pkg/versions/1_0/model"

	"verifsim/refmodel"
	"verifsim/simenv"
	"verifsim/simkit"
	"verifsim/workload"
)

// World A – the "ledger world". Parties (an honest controller, the same controller misbehaving,
// adversaries) anchor operations of one DID in an order the tape decides; a simulated ledger
// stamps (time, number, canonical reference) under one of three numbering schemes; the
// operation store returns every Get in a tape-chosen permutation. After every ledger event the
// real processor.Resolve is judged by the oracles of C01–C06 and C12. Real code: processor,
// operationapplier, operationparser, doccomposer, hashing, commitment, JWS/JCS, client request
// builders, signers. Simulated: store, unpublished store, ledger, protocol client.

type aOp struct {
	M     *refmodel.Op
	A     *operation.AnchoredOperation
	Legit bool
	Kind  string
}

type aWorld struct {
	lateVersion *uint64

	// migrate: every protocol version of the run enables both hash algorithms and the controller may build an
	// operation under the other one (delta hash, next commitments); reveal values keep the algorithm of the commitment
	// they open. curSt is the reference state before the event being generated.
	migrate bool
	curSt   *refmodel.State

	k    *simkit.Kernel
	prop string
	hash uint

	kg       workload.KeyGen
	keyTypes []workload.KeyType
	byCommit map[string]*workload.Key
	updKeys  []*workload.Key
	recKeys  []*workload.Key

	suffix    string
	createM   *refmodel.Op
	createReq []byte
	createSD  *model.SuffixDataModel

	ops    []*aOp
	store  *simenv.OpStore
	shadow *simenv.OpStore
	unpub  *simenv.Unpub

	pc, pcAlt *simenv.ProtoClient
	proc      *processor.OperationProcessor
	procSh    *processor.OperationProcessor
	procAlt   *processor.OperationProcessor

	now     uint64
	seq     uint64
	scheme  int
	perTime map[uint64]uint64
	usedNum map[[2]uint64]bool
	mark    int
	nextID  int
	unpubOp *aOp
	// jsonMove: this run rearranges list members with ietf-json-patch "move" (violations found in such runs carry their
	// own fingerprints)
	jsonMove bool
	// t0: ledger time at the start of the run
	t0        uint64
	deactSnap string
	deactAt   int

	rest    *mux.Router
	restCap *optCapture

	weights    map[string]int
	nontrivial bool
	samples    []string
	stateSeq   uint64
	lastReq    []byte
	lastNote   string // the note of the reference state after the last event (lets patches target it)
}

func (w *aWorld) fail(prop, oracle, detail string) {
	// runs that move members into lists through ietf-json-patch are kept apart (known finding: the JSON patch library
	// the composer uses overwrites the element at the target index instead of inserting before it)
	if w.jsonMove {
		oracle += "[json-patch-move-into-list]"
	}

	w.k.Fail(&simkit.Violation{Property: prop, Oracle: oracle, Detail: detail, Fingerprint: prop + "/" + oracle})
}

// weights per property: which parties are active.
var aWeights = map[string]map[string]int{
	"C01": {"honest": 8, "unauth": 8, "dupcreate": 3, "replay": 3, "stale": 3},
	"C02": {"honest": 6, "fork": 8, "dupcreate": 4, "unpub": 3, "replay": 1},
	"C03": {"honest": 8, "fork": 4, "baddelta": 6, "window": 3, "loop": 3, "replay": 3, "dupcreate": 1, "unauth": 2},
	"C04": {"honest": 8, "deactivate": 4, "recover": 4, "fork": 3, "stale": 4, "replay": 3, "unauth": 2, "dupcreate": 2},
	"C05": {"unpub": 2, "honest": 4, "window": 12, "fork": 1},
	"C06": {"honest": 8, "fork": 3, "baddelta": 2, "unauth": 2, "replay": 2, "dupcreate": 1, "window": 2, "unpub": 2},
	"C12": {"unpub": 2, "honest": 6, "loop": 10, "fork": 2, "replay": 2},
}

func runWorldA(rc *RunCtx, prop string) *RunResult {
	k := rc.K
	k.PanicProp = prop
	k.Props = map[string]bool{prop: true}
	T := k.T

	w := &aWorld{k: k, prop: prop, byCommit: map[string]*workload.Key{}, perTime: map[uint64]uint64{}, usedNum: map[[2]uint64]bool{}, weights: aWeights[prop], deactAt: -1}

	// ---- swarm configuration
	w.hash = []uint{simenv.SHA2_256, simenv.SHA2_256, simenv.SHA2_512}[T.Draw(3, "cfg.hash")]
	ktPool := [][]workload.KeyType{
		{workload.Ed25519}, {workload.Ed25519, workload.P256}, {workload.P256}, {workload.Secp256k1},
		{workload.Ed25519, workload.P256, workload.Secp256k1}, {workload.P384}, {workload.P521},
		{workload.Ed25519, workload.P256, workload.Secp256k1, workload.P384, workload.P521},
	}
	w.keyTypes = ktPool[T.Draw(len(ktPool), "cfg.keytypes")]

	if prop == "C03" && T.Draw(16, "cfg.json-move-run") == 0 {
		w.jsonMove = true
	}

	switch prop {
	case "C02", "C03", "C12", "C04":
		w.scheme = T.Draw(3, "cfg.numbering")
	default:
		w.scheme = T.Draw(2, "cfg.numbering")
	}

	nEvents := 3 + T.Draw(22, "cfg.events")
	if prop == "C03" && T.Draw(8, "cfg.long") == 0 {
		nEvents = 25 + T.Draw(36, "cfg.events.long")
	}

	w.now = ledgerBase + uint64(T.Draw(50, "cfg.t0"))

	// a ledger whose "time" is a block height starts at 0 (a cut at the epoch itself then shows the first operation)
	if prop == "C06" && T.Draw(8, "cfg.t0.zero") == 0 {
		w.now = 0
	}

	w.t0 = w.now

	// protocol versions: one or two; the second starts somewhere inside the run
	maxDelta := uint(3000 + T.Draw(2000, "cfg.maxdelta"))

	w.migrate = T.Draw(4, "cfg.migrate") == 0

	mk := func(genesis uint64, timeDelta uint64) *simenv.Version {
		p := simenv.DefaultProtocol(genesis)
		p.MultihashAlgorithms = []uint{w.hash}

		bh := T.Draw(3, "cfg.bothhash")
		if w.migrate && bh == 0 {
			bh = 1
		}

		switch bh {
		case 1:
			p.MultihashAlgorithms = []uint{w.hash, simenv.SHA2_256 + simenv.SHA2_512 - w.hash}
		case 2: // the DID's algorithm is the protocol's second one (its suffix is then computed by the harness, see anchorCreate)
			p.MultihashAlgorithms = []uint{simenv.SHA2_256 + simenv.SHA2_512 - w.hash, w.hash}
		}

		p.MaxOperationTimeDelta = timeDelta
		p.MaxOperationSize = 20000
		p.MaxDeltaSize = maxDelta // the same in every version of a run: a replayed operation keeps its delta class
		p.MaxOperationCount = uint(1 + T.Draw(50, "cfg.maxops"))

		return simenv.NewVersion(p, &simenv.VersionDeps{})
	}

	// the maximum operation time delta: usually 3-42 s, now and then 0 (a missing anchorUntil then means the
	// zero-length window [anchorFrom, anchorFrom]) or 1
	drawDelta := func(label string) uint64 {
		d := uint64(3 + T.Draw(40, label))
		switch x := T.Draw(14, label+".edge"); {
		case x < 2:
			d = uint64(x)
		case x == 2:
			d = 1<<63 - 1 // "never expires", as an operator would write it
		case x == 3:
			d = 1<<64 - 1
		}

		return d
	}

	deltas := []uint64{drawDelta("cfg.timedelta")}
	genesis := []uint64{0}

	if T.Draw(3, "cfg.twoversions") == 0 {
		genesis = append(genesis, w.now+uint64(1+T.Draw(20, "cfg.genesis2")))
		deltas = append(deltas, drawDelta("cfg.timedelta2"))

		if T.Draw(2, "cfg.threeversions") == 0 {
			genesis = append(genesis, genesis[1]+uint64(1+T.Draw(20, "cfg.genesis3")))
			deltas = append(deltas, drawDelta("cfg.timedelta3"))
		}
	}

	var vs, vsAlt []*simenv.Version

	for i := range genesis {
		vs = append(vs, mk(genesis[i], deltas[i]))
	}

	// the alternative configuration: every parameter the window must NOT depend on is changed;
	// requests generated for the main configuration stay valid (limits only grow)
	for i := range genesis {
		a := *vs[i]
		p := a.P
		p.MaxDeltaSize += uint(1 + T.Draw(100, "alt.maxdelta")) // oversize deltas exceed the limit by more than 140 bytes, so they stay invalid
		p.MaxOperationSize += uint(1 + T.Draw(5000, "alt.maxopsize"))
		p.MaxOperationCount += uint(1 + T.Draw(5000, "alt.maxops"))
		p.MaxCasURILength += uint(1 + T.Draw(5000, "alt.uri"))
		p.MaxChunkFileSize += uint(1 + T.Draw(5000, "alt.chunk"))
		p.MaxProofFileSize += uint(1 + T.Draw(5000, "alt.proof"))
		p.MaxCoreIndexFileSize += uint(1 + T.Draw(5000, "alt.core"))
		p.MaxProvisionalIndexFileSize += uint(1 + T.Draw(5000, "alt.prov"))
		p.MaxMemoryDecompressionFactor += uint(1 + T.Draw(50, "alt.factor"))
		p.NonceSize = 16
		vsAlt = append(vsAlt, simenv.NewVersion(p, &simenv.VersionDeps{}))
	}

	nowFn := func() uint64 { return w.now }
	w.pc = simenv.NewProtoClient(k, nowFn, vs...)
	w.pcAlt = simenv.NewProtoClient(k, nowFn, vsAlt...)

	w.store = simenv.NewOpStore(k, "")
	w.shadow = simenv.NewOpStore(k, "")
	w.unpub = simenv.NewUnpub(k, "")
	w.proc = processor.New("sim", w.store, w.pc, processor.WithUnpublishedOperationStore(w.unpub))
	w.procSh = processor.New("shadow", w.shadow, w.pc, processor.WithUnpublishedOperationStore(w.unpub))
	w.procAlt = processor.New("alt", w.store, w.pcAlt, processor.WithUnpublishedOperationStore(w.unpub))

	// ---- the run: one ledger event per step, oracles after every event
	for ev := 0; ev < nEvents && k.Viol == nil; ev++ {
		k.Steps++
		w.event()

		if k.Viol == nil {
			w.oracles()
		}
	}

	res := &RunResult{
		Viol: k.Viol, SimSeconds: float64(w.now - w.t0), Nontrivial: w.nontrivial, StateHash: w.stateSeq,
		Real: []string{"processor.OperationProcessor", "operationapplier", "operationparser", "doccomposer", "hashing", "commitment", "internal/jws (via applier)", "canonicalizer", "client request builders", "ecsigner", "edsigner", "pubkey"},
		Stub: []string{"operation store", "unpublished operation store", "ledger (time/number/canonical reference)", "protocol.Client"},
	}

	if len(w.samples) > 0 {
		res.Sample = map[string]interface{}{"hash": w.hash, "numbering": w.scheme, "keytypes": fmt.Sprint(w.keyTypes), "events": w.samples}
	}

	return res
}

// ---------------------------------------------------------------- generation

func (w *aWorld) newKey(role string) *workload.Key {
	T := w.k.T
	kt := w.keyTypes[T.Draw(len(w.keyTypes), "key.type")]
	key := w.kg.New(kt, T.Draw(6, "key.nonce") == 0)
	w.byCommit[key.Commitment(w.hash)] = key

	if w.migrate {
		w.byCommit[key.Commitment(w.otherHash())] = key
	}

	if role == "upd" {
		w.updKeys = append(w.updKeys, key)
	} else if role == "rec" {
		w.recKeys = append(w.recKeys, key)
	}

	return key
}

func (w *aWorld) otherHash() uint { return simenv.SHA2_256 + simenv.SHA2_512 - w.hash }

// revealAlgFor: the algorithm under which key k's commitment is in force right now (else the DID's own algorithm).
func (w *aWorld) revealAlgFor(k *workload.Key) uint {
	if w.migrate && k != nil && w.curSt != nil {
		for _, alg := range []uint{w.hash, w.otherHash()} {
			if c := k.Commitment(alg); c == w.curSt.UpdateC || c == w.curSt.RecoveryC {
				return alg
			}
		}
	}

	return w.hash
}

func (w *aWorld) nextMark() string {
	w.mark++

	return fmt.Sprintf("m%d", w.mark)
}

// genPatches draws 1–3 model-predictable patches. failing adds a patch that is valid but cannot be applied.
func (w *aWorld) genPatches(failing bool, create bool) []workload.PatchDesc {
	T := w.k.T
	n := 1 + T.Draw(3, "patch.n")

	var out []workload.PatchDesc

	for i := 0; i < n; i++ {
		mark := w.nextMark()
		kinds := []workload.PatchKind{workload.AddKey, workload.AddKey, workload.AddSvc, workload.RemoveKey, workload.RemoveSvc, workload.AddNote, workload.AddAKA, workload.RemoveAKA, workload.ReplaceAll,
			workload.ReplaceNote, workload.RemoveNote}
		kind := kinds[T.Draw(len(kinds), "patch.kind")]

		if create && i == 0 {
			kind = workload.AddKey
		}

		pickIDs := func(pool []string) []string {
			first := T.Draw(len(pool), "patch.id")
			ids := []string{pool[first]}

			if T.Draw(3, "patch.two") == 0 {
				ids = append(ids, pool[(first+1)%len(pool)])
			}

			return ids
		}

		switch kind {
		case workload.AddKey, workload.RemoveKey, workload.ReplaceAll:
			ids := pickIDs(workload.KeyIDs())
			if kind == workload.ReplaceAll && T.Draw(4, "patch.replace.empty") == 0 {
				ids = nil // replace with the empty document {}
			}

			out = append(out, workload.PatchDesc{Kind: kind, IDs: ids, Mark: mark})
		case workload.AddSvc, workload.RemoveSvc:
			out = append(out, workload.PatchDesc{Kind: kind, IDs: pickIDs(workload.SvcIDs()), Mark: mark})
		case workload.AddAKA, workload.RemoveAKA:
			out = append(out, workload.PatchDesc{Kind: kind, IDs: pickIDs([]string{"https://a.example/1", "https://a.example/\u00fc?x=1&y=<2>", "did:ex:3"}), Mark: mark})
		case workload.ReplaceNote:
			// the JSON patch tests the current value first: it applies when the guess is right, fails (atomically) otherwise
			guess := w.lastNote
			if T.Draw(4, "patch.note.wrongguess") == 0 || guess == "" {
				guess = "stale-" + mark
			}

			out = append(out, workload.PatchDesc{Kind: workload.ReplaceNote, IDs: []string{guess}, Mark: noteValue(mark)})
		case workload.RemoveNote:
			out = append(out, workload.PatchDesc{Kind: workload.RemoveNote, Mark: mark})
		default:
			out = append(out, workload.PatchDesc{Kind: workload.AddNote, Mark: noteValue(mark)})
		}

		// (dedicated runs) a list member, and notes moved into it
		if w.jsonMove && !create {
			switch T.Draw(4, "patch.tags") {
			case 0:
				out[len(out)-1] = workload.PatchDesc{Kind: workload.AddTags, IDs: []string{"a-" + mark, "b-" + mark, "c-" + mark}[:1+T.Draw(3, "patch.tags.n")]}
			case 1:
				out[len(out)-1] = workload.PatchDesc{Kind: workload.MoveNoteIntoTags}
				w.k.Count("probe:json-patch-move-into-list")
			}
		}
	}

	if failing {
		pos := T.Draw(len(out)+1, "patch.failpos")
		out = append(out[:pos:pos], append([]workload.PatchDesc{{Kind: workload.FailTest, Mark: w.nextMark()}}, out[pos:]...)...)
	}

	return out
}

// noteValue: every other note carries characters that JSON encoders may or may not escape (a later "test" operation of
// an ietf-json-patch compares the stored value with the value in the patch).
func noteValue(mark string) string {
	if len(mark)%2 == 0 {
		return mark + " & <" + mark + "> \u2028"
	}

	return mark
}

func (w *aWorld) version() *simenv.Version { return w.pc.CurrentVersion() }

// advance moves the ledger clock to the anchoring time of the next event. Window classes are chosen
// relative to the actual anchoring time, so the time is advanced before the operation is built.
func (w *aWorld) advance() uint64 {
	T := w.k.T
	w.now += uint64([]int{0, 0, 1, 1, 2, 3, 7}[T.Draw(7, "ledger.dt")])

	return w.now
}

type opPlan struct {
	hash       uint // algorithm of the delta hash and the next commitments (0: the DID's own)
	typ        operation.Type
	key        *workload.Key // revealed key (nil for create)
	nextUpd    *workload.Key
	nextRec    *workload.Key
	nextUpdC   string // overrides (loops)
	nextRecC   string
	patches    []workload.PatchDesc
	delta      refmodel.DeltaClass
	invalidBig bool
	noDelta    bool
	from       int64
	until      int64
	kind       string
	// adversarial deviations
	signWith   *workload.Key
	revealOf   *workload.Key
	corruptSig bool
	tamper     string
	// hdrOrder: the signer wrote its protected header with "kid" before "alg" (and signed exactly that)
	hdrOrder     bool
	signedSuffix string
}

// build turns a plan into a concrete request plus its symbolic descriptor (coordinates not yet set).
func (w *aWorld) build(p *opPlan) ([]byte, *refmodel.Op) {
	m := &refmodel.Op{Type: refmodel.OpType(p.typ), Authentic: true, SuffixOK: true, Parses: true, Delta: p.delta, Patches: p.patches, From: p.from, Until: p.until}

	opHash := w.hash
	if p.hash != 0 {
		opHash = p.hash
	}

	revealAlg := w.revealAlgFor(p.key)

	nu, nr := p.nextUpdC, p.nextRecC
	if nu == "" && p.nextUpd != nil {
		nu = p.nextUpd.Commitment(opHash)
	}

	if nr == "" && p.nextRec != nil {
		nr = p.nextRec.Commitment(opHash)
	}

	m.NextUpdate, m.NextRecovery = nu, nr

	var origin interface{}

	if p.typ == operation.TypeCreate || p.typ == operation.TypeRecover {
		origin = originValue(w.mark)
		w.nextMark()

		ob, _ := json.Marshal(origin)
		m.Origin = string(ob)
	}

	patches, err := workload.ToPatches(p.patches)
	if err != nil {
		panic(err)
	}

	if p.key != nil {
		m.RevealCommit = p.key.Commitment(revealAlg)
	}

	plain := p.delta == refmodel.DeltaOK && p.signWith == nil && p.revealOf == nil && !p.corruptSig && p.tamper == "" &&
		p.nextUpdC == "" && p.nextRecC == "" && p.signedSuffix == "" && !p.hdrOrder

	var (
		req []byte
	)

	if plain {
		// honest requests come from the repository's client library
		spec := &workload.OpSpec{Type: p.typ, Suffix: w.suffix, Hash: opHash, RevealHash: revealAlg, SignKey: p.key, NextUpdate: p.nextUpd, NextRecovery: p.nextRec,
			Patches: patches, From: p.from, Until: p.until}
		if origin != nil {
			spec.AnchorOrigin = origin
		}

		if p.typ == operation.TypeCreate {
			spec.SuffixType = []string{"", "", "ipdb"}[w.mark%3]
		}

		req, err = workload.Build(spec)
		if err != nil {
			panic(fmt.Sprintf("client library refused an honest request (%s): %v", p.kind, err))
		}
	} else {
		raw := &workload.RawSpec{Type: p.typ, Suffix: w.suffix, Hash: opHash, RevealHash: revealAlg, RevealKey: p.key, SignWith: p.signWith, RevealOf: p.revealOf,
			NextUpdateCommit: nu, NextRecoveryCommit: nr, Patches: patches, From: p.from, Until: p.until, CorruptSig: p.corruptSig, SignedSuffix: p.signedSuffix}
		if origin != nil {
			raw.AnchorOrigin = origin
		}

		if p.typ == operation.TypeCreate {
			raw.SuffixType = []string{"", "", "ipdb"}[w.mark%3]
		}

		switch {
		case p.noDelta:
			raw.NoDelta = true
		case p.delta == refmodel.DeltaMismatch:
			other, _ := workload.ToPatches([]workload.PatchDesc{{Kind: workload.AddKey, IDs: []string{"k4"}, Mark: w.nextMark()}})
			raw.RequestDelta = &model.DeltaModel{UpdateCommitment: nu, Patches: other}
		case p.delta == refmodel.DeltaInvalid && p.invalidBig:
			big, _ := patch.NewJSONPatch(fmt.Sprintf(`[{"op":"add","path":"/note","value":%q}]`, strings.Repeat("x", int(w.version().P.MaxDeltaSize)+40)))
			raw.Patches = append(raw.Patches, big)
		case p.delta == refmodel.DeltaInvalid:
			// other ways for a delta to be invalid although it matches its signed hash: an unacceptable key behind an
			// acceptable one (JWK or base58) in one key list, a key id given twice, a service whose endpoint is no URI
			b58 := `{"id":"b58","type":"Ed25519VerificationKey2018","publicKeyBase58":"GY4GunSXBPBfhLCzDL7iGmP5dR3sBDCJZkkaGK8VgYQf"}`
			jwkKey := `{"id":"ok1","type":"JsonWebKey2020","publicKeyJwk":{"kty":"EC","crv":"P-256","x":"AA","y":"BB"}}`
			bad := `{"id":"bad","type":"NoSuchKeyType2099","publicKeyJwk":{"kty":"EC","crv":"P-256","x":"AA","y":"BB"}}`

			var inv patch.Patch

			switch w.k.T.Draw(6, "delta.invalid.kind") {
			case 0:
				raw.NoPatches = true
			case 1:
				_ = json.Unmarshal([]byte(`{"action":"add-public-keys","publicKeys":[`+b58+`,`+bad+`]}`), &inv)
			case 2:
				_ = json.Unmarshal([]byte(`{"action":"add-public-keys","publicKeys":[`+jwkKey+`,`+bad+`]}`), &inv)
			case 3:
				_ = json.Unmarshal([]byte(`{"action":"add-public-keys","publicKeys":[`+jwkKey+`,`+jwkKey+`]}`), &inv)
			case 4:
				_ = json.Unmarshal([]byte(`{"action":"add-services","services":[{"id":"s9","type":"T","serviceEndpoint":"https://ok.example"},{"id":"s8","type":"T","serviceEndpoint":"no uri at all"}]}`), &inv)
			default:
				_ = json.Unmarshal([]byte(`{"action":"replace","document":{"publicKeys":[`+b58+`,`+bad+`]}}`), &inv)
			}

			if inv != nil {
				raw.Patches = append(raw.Patches, inv)
				w.k.Count("probe:invalid-delta-with-unacceptable-entry-behind-acceptable-one")
			}
		}

		req, err = workload.BuildRaw(raw)
		if err != nil {
			panic(err)
		}

		if p.tamper != "" {
			sd := workload.SignedDataOf(req)

			switch p.tamper {
			case "payload":
				sd = workload.TamperPayload(sd, func(mm map[string]interface{}) {
					if _, ok := mm["anchorUntil"]; ok {
						mm["anchorUntil"] = float64(p.until + 1000)
					} else {
						mm["anchorUntil"] = float64(9999999)
					}
				})
			case "header":
				sd = workload.TamperHeader(sd, map[string]interface{}{"alg": p.key.Type.Alg(), "kid": "x"})
			case "header-respaced":
				sd = workload.RespaceHeader(sd)
			}

			req = workload.ReplaceSignedData(req, sd)
		}

		// (only for an operation that is otherwise signed properly: a forged or damaged twin keeps its flaw)
		if p.hdrOrder && p.signWith == nil && !p.corruptSig && p.tamper == "" {
			sd, err := workload.ResignWithHeader(p.key, workload.SignedDataOf(req), []byte(`{"kid":"signing-key","alg":"`+p.key.Type.Alg()+`"}`))
			if err != nil {
				panic(err)
			}

			req = workload.ReplaceSignedData(req, sd)
		}

		if p.signWith != nil || p.corruptSig || p.tamper != "" {
			m.Authentic = false
		}

		if p.revealOf != nil {
			// reveal value and signed key disagree: the operation cannot be attributed to any commitment
			m.RevealCommit = ""
		}

		if p.signedSuffix != "" {
			m.SuffixOK = false
		}
	}

	m.Label = fmt.Sprintf("%s/%s", p.typ, p.kind)

	return req, m
}

// window draws an anchoring window around the anchoring time t, biased onto every boundary.
func (w *aWorld) window(t uint64) (int64, int64) {
	T := w.k.T
	d := refmodel.DeltaOf(w.version().P.MaxOperationTimeDelta)
	ti := int64(t)

	switch T.Draw(4, "win.class") {
	case 0:
		return 0, 0
	case 1: // from only: default until = from + delta
		offs := []int64{-d - 1, -d, -d + 1, -1, 0, 1, -d / 2}
		if d > 1<<40 {
			// a "never expires" delta: the window cannot be left at its far end; stay near the anchoring time
			offs = []int64{-1000, -1, 0, 1, 1, 5}
		}

		return ti + offs[T.Draw(len(offs), "win.from")], 0
	case 2: // both
		fo := []int64{-5, -1, 0, 1}
		uo := []int64{-1, 0, 1, 5}
		from := ti + fo[T.Draw(len(fo), "win.from")]
		until := ti + uo[T.Draw(len(uo), "win.until")]

		if until <= 0 {
			until = 1
		}

		return from, until
	default: // until only
		uo := []int64{-1, 0, 1, 5}

		return 0, ti + uo[T.Draw(len(uo), "win.until")]
	}
}

// event generates and anchors one operation.
func (w *aWorld) event() {
	T := w.k.T

	if len(w.ops) == 0 {
		// C02: the DID may start its life as an unpublished create (published ones must then take precedence)
		if w.prop == "C02" && T.Draw(3, "create.unpublished") == 0 {
			w.unpublishedCreate()
		} else {
			w.anchorCreate(false)
		}

		return
	}

	st, _ := refmodel.Resolve(w.modelOps())
	w.curSt = st

	// pick a party
	var names []string
	for n := range w.weights {
		names = append(names, n)
	}

	sort.Strings(names)

	total := 0
	for _, n := range names {
		total += w.weights[n]
	}

	x := T.Draw(total, "party")
	party := names[0]

	for _, n := range names {
		if x < w.weights[n] {
			party = n

			break
		}

		x -= w.weights[n]
	}

	// an outstanding unpublished operation restricts what may happen next (see DESIGN §6 C02)
	if w.unpubOp != nil {
		switch {
		case w.prop == "C12" && w.unpubOp.M.Type != refmodel.Create && T.Draw(2, "unpub.loop") == 0:
			// a published operation that commits back to a commitment consumed earlier in the chain - possibly by the pending
			// unpublished operation
			w.k.Count("probe:loop-with-unpublished-operation-in-chain")
			w.anchorLoop(st)
		case T.Draw(2, "unpub.resolve") == 0:
			w.publishUnpublished()
		case w.unpubOp.M.Type == refmodel.Create:
			// a published create for the same suffix data (same or altered delta) while the controller's own is still unpublished
			u := w.unpubOp
			w.anchorCreate(true)
			w.k.Count("probe:published-vs-unpublished-create")

			if T.Draw(2, "unpub.withdraw") == 0 {
				w.oracles()
				_ = w.unpub.Delete(u.A)

				for i, o := range w.ops {
					if o == u {
						w.ops = append(w.ops[:i:i], w.ops[i+1:]...)

						break
					}
				}

				w.unpubOp = nil
			}
		case w.prop == "C02" && w.unpubOp.M.Type == refmodel.Recover && T.Draw(2, "unpub.update-beside") == 0 && w.publishedUpdateBesidePending():
		default:
			w.competitorForUnpublished(st)
		}

		return
	}

	switch party {
	case "honest", "window", "baddelta", "deactivate", "recover":
		w.anchorHonest(st, party)
	case "fork":
		w.anchorFork(st, false)
	case "stale":
		w.anchorFork(st, true)
	case "loop":
		w.anchorLoop(st)
	case "replay":
		w.anchorReplay()
	case "unauth":
		w.anchorUnauthorised(st)
	case "dupcreate":
		w.anchorCreate(true)
	case "unpub":
		w.addUnpublished(st)
	}
}

func (w *aWorld) modelOps() []*refmodel.Op {
	out := make([]*refmodel.Op, len(w.ops))
	for i, o := range w.ops {
		out[i] = o.M
	}

	return out
}

func (w *aWorld) anchor(req []byte, m *refmodel.Op, legit bool, kind string) *aOp {
	m.ID = w.nextID
	w.nextID++

	v := w.version()
	a := &operation.AnchoredOperation{
		Type: operation.Type(m.Type), UniqueSuffix: w.suffix, OperationRequest: req,
		TransactionTime: m.Time, TransactionNumber: m.Number, ProtocolVersion: v.P.GenesisTime,
	}

	if w.lateVersion != nil {
		a.ProtocolVersion = *w.lateVersion // a late-arriving transaction keeps the version of its own anchoring time
	}

	if m.Published {
		a.CanonicalReference = fmt.Sprintf("cref%d", m.ID)
		a.EquivalentReferences = []string{fmt.Sprintf("eref%d", m.ID)}
	}

	if m.Origin != "" {
		var ov interface{}
		if json.Unmarshal([]byte(m.Origin), &ov) == nil {
			a.AnchorOrigin = ov
		}
	}

	op := &aOp{M: m, A: a, Legit: legit, Kind: kind}
	w.ops = append(w.ops, op)
	w.lastReq = req

	if m.Published {
		w.store.Insert(a)

		if legit {
			c := *a
			w.shadow.Insert(&c)
		}
	}

	w.k.Tr.Logf("#%d anchor %s legit=%v from=%d until=%d delta=%s reveal=%s nextU=%s nextR=%s", w.k.Steps, m, legit, m.From, m.Until, m.Delta,
		tail6(m.RevealCommit), tail6(m.NextUpdate), tail6(m.NextRecovery))

	if len(w.samples) < 14 {
		w.samples = append(w.samples, fmt.Sprintf("%s legit=%v window=(%d,%d) delta=%s", m, legit, m.From, m.Until, m.Delta))
	}

	w.k.Count("event:" + kind)

	return op
}

func tail6(s string) string {
	if len(s) > 6 {
		return s[len(s)-6:]
	}

	return s
}

func (w *aWorld) deltaClass(party string) (refmodel.DeltaClass, bool, bool) {
	T := w.k.T
	rare := 12
	if party == "create" {
		rare = 5
	}

	if party != "baddelta" && T.Draw(rare, "delta.rare") != 0 {
		return refmodel.DeltaOK, false, false
	}

	switch T.Draw(5, "delta.class") {
	case 0:
		return refmodel.DeltaMismatch, false, false
	case 1:
		return refmodel.DeltaInvalid, false, false
	case 2:
		return refmodel.DeltaInvalid, false, true
	default:
		return refmodel.DeltaOK, true, false // valid delta whose patches fail to apply
	}
}

func (w *aWorld) anchorCreate(dup bool) {
	T := w.k.T
	w.advance()

	if !dup {
		cls, failing, big := w.deltaClass("create")
		p := &opPlan{typ: operation.TypeCreate, nextUpd: w.newKey("upd"), nextRec: w.newKey("rec"), patches: w.genPatches(failing, true), delta: cls, invalidBig: big, kind: "create"}

		// a create anchored without any delta: still the DID's create (empty document, no update commitment)
		if cls == refmodel.DeltaMismatch && T.Draw(2, "create.nodelta") == 0 {
			p.noDelta = true
			p.kind = "create-without-delta"
			w.k.Count("probe:create-without-delta")
		}
		req, m := w.build(p)

		parsed, err := w.version().Parser.ParseCreateOperation(req, true)
		if err != nil {
			panic(err)
		}

		w.suffix = parsed.UniqueSuffix
		w.createReq = req
		w.createM = m
		w.createSD = parsed.SuffixData
		w.stampNoAdvance(m)
		w.anchor(req, m, true, "create")

		return
	}

	// a further create for the same DID: same suffix data, same or different delta
	first := w.createM // the descriptor of the original create request (w.ops[0] may be something else by now)
	m := &refmodel.Op{Type: refmodel.Create, Parses: true, NextRecovery: first.NextRecovery, Origin: first.Origin, Label: "create/dup"}
	req := w.createReq

	if T.Draw(3, "dup.samedelta") != 0 {
		// altered delta: no longer matches the delta hash in the (unchanged) suffix data
		other, _ := workload.ToPatches([]workload.PatchDesc{{Kind: workload.AddKey, IDs: []string{"k3"}, Mark: w.nextMark()}})
		b, err := json.Marshal(&model.CreateRequest{Operation: operation.TypeCreate, SuffixData: w.createSD,
			Delta: &model.DeltaModel{UpdateCommitment: w.newKey("").Commitment(w.hash), Patches: other}})
		if err != nil {
			panic(err)
		}

		req = b
		m.Delta = refmodel.DeltaMismatch
		m.Label = "create/dup-altered"
	} else {
		m.Delta, m.Patches, m.NextUpdate = first.Delta, first.Patches, first.NextUpdate
	}

	w.stampNoAdvance(m)
	w.nontrivial = true
	w.anchor(req, m, false, "dupcreate")
}

// unpublishedCreate: the create exists only in the unpublished-operation store.
func (w *aWorld) unpublishedCreate() {
	p := &opPlan{typ: operation.TypeCreate, nextUpd: w.newKey("upd"), nextRec: w.newKey("rec"), patches: w.genPatches(false, true), kind: "create-unpublished"}
	req, m := w.build(p)

	parsed, err := w.version().Parser.ParseCreateOperation(req, true)
	if err != nil {
		panic(err)
	}

	w.suffix, w.createReq, w.createSD, w.createM = parsed.UniqueSuffix, req, parsed.SuffixData, m

	m.ID = w.nextID
	w.nextID++
	m.Time, m.Number, m.Published = w.now, 0, false
	m.MaxDelta = refmodel.DeltaOf(w.version().P.MaxOperationTimeDelta)

	a := &operation.AnchoredOperation{Type: operation.TypeCreate, UniqueSuffix: w.suffix, OperationRequest: req, TransactionTime: w.now,
		ProtocolVersion: w.version().P.GenesisTime, AnchorOrigin: m.Origin}
	op := &aOp{M: m, A: a, Legit: true, Kind: "unpublished"}
	w.ops = append(w.ops, op)
	w.unpubOp = op
	_ = w.unpub.Put(a)
	w.nontrivial = true
	w.k.Count("probe:unpublished-create")
	w.k.Tr.Logf("#%d unpublished %s", w.k.Steps, m)
}

func (w *aWorld) stampNoAdvance(m *refmodel.Op) {
	T := w.k.T
	m.Time = w.now
	m.Published = true

	switch w.scheme {
	case 0:
		m.Number = w.seq
		w.seq++
	case 1:
		m.Number = w.perTime[w.now]
		w.perTime[w.now]++
	default:
		// arbitrary distinct numbers (no rejection loop: an exhausted tape draws 0 forever)
		n := uint64(T.Draw(60, "ledger.number"))
		for w.usedNum[[2]uint64{w.now, n}] {
			n++
		}

		w.usedNum[[2]uint64{w.now, n}] = true
		m.Number = n
	}

	m.MaxDelta = refmodel.DeltaOf(w.version().P.MaxOperationTimeDelta)
}

// legitNow: does an authentic operation revealing key k of the given type reveal the commitment currently in force?
func (w *aWorld) legitNow(st *refmodel.State, typ operation.Type, key *workload.Key) bool {
	if st == nil || st.Deactivated || key == nil {
		return false
	}

	for _, alg := range []uint{w.hash, w.otherHash()} {
		c := key.Commitment(alg)
		if (typ == operation.TypeUpdate && st.UpdateC == c) || (typ != operation.TypeUpdate && st.RecoveryC == c) {
			return true
		}

		if !w.migrate {
			break
		}
	}

	return false
}

func (w *aWorld) anchorHonest(st *refmodel.State, party string) {
	T := w.k.T

	if st == nil || st.Deactivated {
		// nothing legitimate is possible any more: a stale-key operation instead
		w.anchorFork(st, true)

		return
	}

	typ := operation.TypeUpdate

	switch x := T.Draw(20, "honest.type"); {
	case party == "deactivate":
		typ = operation.TypeDeactivate
	case party == "recover":
		typ = operation.TypeRecover
	case x < 13:
		typ = operation.TypeUpdate
	case x < 18:
		typ = operation.TypeRecover
	default:
		typ = operation.TypeDeactivate
	}

	if typ == operation.TypeUpdate && st.UpdateC == "" {
		typ = operation.TypeRecover
	}

	p := &opPlan{typ: typ, kind: "honest"}

	if typ == operation.TypeUpdate {
		p.key = w.byCommit[st.UpdateC]
	} else {
		p.key = w.byCommit[st.RecoveryC]
	}

	if p.key == nil {
		// the chain points at a commitment nobody holds a key for (possible after Byzantine input): only noise is possible
		w.anchorUnauthorised(st)

		return
	}

	t := w.advance()

	if typ != operation.TypeDeactivate {
		cls, failing, big := w.deltaClass(party)
		p.delta, p.invalidBig = cls, big
		p.patches = w.genPatches(failing, false)
		p.nextUpd = w.newKey("upd")

		if cls != refmodel.DeltaOK {
			p.kind = "baddelta"
		} else if failing {
			p.kind = "failing-patch"
		}

		// a recover anchored without any delta member is still the controller's recover: empty document, no update
		// commitment, the recovery commitment moves on (its commitments are in the signed data)
		if typ == operation.TypeRecover && cls == refmodel.DeltaMismatch && T.Draw(2, "recover.nodelta") == 0 {
			p.noDelta = true
			p.kind = "recover-without-delta"
			w.k.Count("probe:recover-without-delta")
		}
	}

	if typ == operation.TypeRecover {
		p.nextRec = w.newKey("rec")
	}

	// hash migration: this operation is built under the protocol's other algorithm
	if w.migrate && typ != operation.TypeDeactivate && T.Draw(4, "honest.otherhash") == 0 {
		p.hash = []uint{w.hash, w.otherHash()}[T.Draw(2, "honest.otherhash.which")]
		w.k.Count("probe:operation-under-the-other-hash-algorithm")
	}

	// rarely the controller commits its next update key to the key that is also its current recovery key
	// (the two chains are independent; only create/recover refuse EQUAL update and recovery commitments)
	if typ == operation.TypeUpdate && p.delta == refmodel.DeltaOK && T.Draw(10, "honest.sharedkey") == 0 {
		// ... or to a recovery key that an earlier recover has already retired
		rk := w.byCommit[st.RecoveryC]
		if len(w.recKeys) > 1 && T.Draw(2, "honest.sharedkey.retired") == 0 {
			rk = w.recKeys[T.Draw(len(w.recKeys), "honest.sharedkey.pick")]
		}

		// (not a key that some anchored update - genuine, stale or replayed - already reveals: re-committing to it would
		// make those earlier-anchored operations authorised after the fact, and the legitimacy labels of this world
		// are assigned at anchoring time)
		revealedByUpdate := false

		if rk != nil {
			for _, o := range w.ops {
				if o.M.Type == refmodel.Update && (o.M.RevealCommit == rk.Commitment(w.hash) || o.M.RevealCommit == rk.Commitment(w.otherHash())) {
					revealedByUpdate = true
				}
			}
		}

		if rk != nil && rk.Commitment(w.hash) != st.UpdateC && rk.Commitment(w.otherHash()) != st.UpdateC && rk != p.key && !revealedByUpdate {
			p.nextUpd = rk
			w.k.Count("probe:update-key-equals-recovery-key")
		}
	}

	if party == "window" || T.Draw(6, "honest.windowed") == 0 {
		p.from, p.until = w.window(t)
		if p.from != 0 || p.until != 0 {
			p.kind += "+window"
			w.nontrivial = true
		}
	}

	// a signer other than the library's own may write its protected header members in another order and sign exactly that
	if T.Draw(10, "honest.header-order") == 0 {
		p.hdrOrder = true
		w.k.Count("probe:honest-operation-with-kid-before-alg")
	}

	// now and then a spoiled twin of the operation reaches the ledger first, carrying the SAME next commitments: a forged
	// copy (somebody re-signed or damaged the pending request) or, for an update, the controller's own botched first
	// attempt (request delta not matching the signed hash) that is then repeated correctly with the keys already generated
	if typ != operation.TypeDeactivate && p.delta == refmodel.DeltaOK && T.Draw(8, "honest.twin") == 0 {
		twin := *p
		legitTwin := false

		if typ == operation.TypeUpdate && T.Draw(2, "honest.twin.kind") == 0 {
			twin.delta, twin.kind, legitTwin = refmodel.DeltaMismatch, "botched-twin", true
		} else {
			twin.corruptSig, twin.kind = true, "forged-twin"
		}

		treq, tm := w.build(&twin)

		// ... or, for a recover, somebody wraps the signed data of the (pending) recover into a DEACTIVATE request for the
		// same DID: validly signed by the committed key, but not a deactivate and not bound to this DID by a signed suffix
		if typ == operation.TypeRecover && T.Draw(2, "honest.twin.rewrap") == 0 {
			genuine := *p
			greq, _ := w.build(&genuine)

			var gm map[string]interface{}
			if json.Unmarshal(greq, &gm) == nil {
				wrapped, err := canonicalizer.MarshalCanonical(map[string]interface{}{
					"type": "deactivate", "didSuffix": w.suffix, "revealValue": gm["revealValue"], "signedData": gm["signedData"],
				})
				if err == nil {
					treq = wrapped
					tm = &refmodel.Op{Type: refmodel.Deactivate, Authentic: false, SuffixOK: false, Parses: true, RevealCommit: p.key.Commitment(w.revealAlgFor(p.key)),
						From: p.from, Until: p.until, Label: "deactivate/recover-rewrapped"}
					twin.kind = "recover-rewrapped-as-deactivate"
				}
			}
		}

		w.stampNoAdvance(tm)
		w.k.Count("probe:spoiled-twin-" + twin.kind)
		w.anchor(treq, tm, legitTwin, twin.kind)
		w.advance()
	}

	req, m := w.build(p)
	w.stampNoAdvance(m)

	// now and then the request is exactly as large as the protocol allows (the client sent it with trailing whitespace)
	if max := int(w.version().P.MaxOperationSize); len(req) < max && T.Draw(20, "honest.maxsize") == 0 {
		req = append(req, []byte(strings.Repeat(" ", max-len(req)))...)
		w.k.Count("probe:request-of-exactly-maximum-size")
	}

	if !m.InWindow() {
		w.k.Count("probe:out-of-window-" + string(typ))
	}

	if p.delta != refmodel.DeltaOK || strings.Contains(p.kind, "failing") {
		w.nontrivial = true
		w.k.Count("probe:unusable-delta-" + string(typ))
	}

	w.anchor(req, m, true, p.kind)
}

// anchorFork: the controller (mis)uses a key it holds: a second valid operation for the current
// commitment (competitor) or, when stale, for a commitment that was already consumed.
func (w *aWorld) anchorFork(st *refmodel.State, stale bool) {
	T := w.k.T

	pool := w.updKeys
	typ := operation.TypeUpdate

	if T.Draw(3, "fork.rec") == 0 || len(pool) == 0 {
		pool = w.recKeys
		typ = operation.TypeRecover

		if T.Draw(4, "fork.deact") == 0 {
			typ = operation.TypeDeactivate
		}
	}

	if len(pool) == 0 {
		w.anchorCreate(true)

		return
	}

	var key *workload.Key

	if !stale && st != nil && !st.Deactivated {
		c := st.UpdateC
		if typ != operation.TypeUpdate {
			c = st.RecoveryC
		}

		key = w.byCommit[c]
	}

	if key == nil || stale {
		key = pool[T.Draw(len(pool), "fork.key")]
	}

	t := w.advance()
	p := &opPlan{typ: typ, key: key, kind: "fork"}

	if typ != operation.TypeDeactivate {
		p.patches = w.genPatches(false, false)
		p.nextUpd = w.newKey("upd")
	}

	if typ == operation.TypeRecover {
		p.nextRec = w.newKey("rec")
	}

	if T.Draw(8, "fork.windowed") == 0 {
		p.from, p.until = w.window(t)
	}

	legit := w.legitNow(st, typ, key)
	if !legit {
		p.kind = "stale-key"
	}

	req, m := w.build(p)
	w.stampNoAdvance(m)
	w.nontrivial = true

	if legit {
		w.k.Count("probe:competitor-for-current-commitment")
	} else {
		w.k.Count("probe:stale-key-operation")
	}

	w.anchor(req, m, legit, p.kind)
}

// anchorLoop: an authentic operation whose next commitment is the one it consumes, or one consumed earlier in the chain.
func (w *aWorld) anchorLoop(st *refmodel.State) {
	T := w.k.T

	if st == nil || st.Deactivated {
		w.anchorFork(st, true)

		return
	}

	typ := operation.TypeUpdate
	if st.UpdateC == "" || T.Draw(3, "loop.rec") == 0 {
		typ = operation.TypeRecover
	}

	cur := st.UpdateC
	if typ == operation.TypeRecover {
		cur = st.RecoveryC
	}

	key := w.byCommit[cur]
	if key == nil {
		w.anchorUnauthorised(st)

		return
	}

	// the target of the loop: the commitment itself, or an earlier commitment of the same chain segment
	target := cur
	earlier := w.chainCommitments(st, typ)

	if len(earlier) > 0 && T.Draw(2, "loop.self") == 1 {
		target = earlier[T.Draw(len(earlier), "loop.target")]
	}

	w.advance()
	p := &opPlan{typ: typ, key: key, kind: "loop", patches: w.genPatches(false, false)}

	selfLoop := target == cur

	// the same commitment in another base64url spelling (a lenient decoder accepts several for one multihash): still the
	// commitment of that key
	if T.Draw(4, "loop.respelt") == 0 {
		if r := refmodel.Respell(target); refmodel.Canon(r) == refmodel.Canon(target) && r != target {
			target = r
			w.k.Count("probe:loop-commitment-in-another-spelling")
		}
	}

	if typ == operation.TypeUpdate {
		p.nextUpdC = target
	} else {
		p.nextRecC = target
		p.nextUpd = w.newKey("upd")
	}

	if selfLoop {
		p.kind = "self-loop"
	}

	req, m := w.build(p)
	w.stampNoAdvance(m)
	w.nontrivial = true
	w.k.Count("probe:" + p.kind)

	// intake must refuse a request that re-commits to the key it reveals
	if selfLoop {
		if _, err := w.version().Parser.Parse("did:sim", req); err == nil {
			w.fail("C12", "intake/self-loop-accepted", fmt.Sprintf("intake accepted a %s whose next commitment is the commitment of the key it reveals", typ))
		}
	}

	w.anchor(req, m, true, p.kind)
}

// chainCommitments returns the commitments consumed so far in the current chain (recovery chain,
// or the update chain since the last applied create/recover).
func (w *aWorld) chainCommitments(st *refmodel.State, typ operation.Type) []string {
	var out []string

	byID := map[int]*refmodel.Op{}
	for _, o := range w.ops {
		byID[o.M.ID] = o.M
	}

	for _, id := range st.Applied {
		o := byID[id]
		if o == nil {
			continue
		}

		if typ == operation.TypeRecover && (o.Type == refmodel.Recover) {
			out = append(out, o.RevealCommit)
		}

		if typ == operation.TypeUpdate {
			if o.Type == refmodel.Create || o.Type == refmodel.Recover {
				out = nil
			} else if o.Type == refmodel.Update {
				out = append(out, o.RevealCommit)
			}
		}
	}

	return out
}

func (w *aWorld) anchorReplay() {
	T := w.k.T

	var cands []*aOp

	for _, o := range w.ops {
		if o.M.Type != refmodel.Create && o.M.Published {
			cands = append(cands, o)
		}
	}

	if len(cands) == 0 {
		w.anchorCreate(true)

		return
	}

	src := cands[T.Draw(len(cands), "replay.src")]
	w.advance()

	m := *src.M
	m.Label = string(src.M.Type) + "/replay-of-#" + fmt.Sprint(src.M.ID)
	w.stampNoAdvance(&m)
	w.nontrivial = true
	w.k.Count("probe:replayed-operation")

	// a replayed operation is authorised exactly when it (still) reveals the commitment in force: e.g. a
	// deactivate that was ignored because it was anchored before its window opens may be anchored again
	st, _ := refmodel.Resolve(w.modelOps())
	legit := m.Authentic && m.RevealCommit != "" && w.legitNow(st, operation.Type(m.Type), w.byCommit[m.RevealCommit])

	if legit {
		w.k.Count("probe:replay-still-authorised")
	}

	w.anchor(src.A.OperationRequest, &m, legit, "replay")
}

// anchorUnauthorised: an adversary anchors an operation that does not reveal the committed key
// with a valid signature by it.
func (w *aWorld) anchorUnauthorised(st *refmodel.State) {
	T := w.k.T

	typ := []operation.Type{operation.TypeUpdate, operation.TypeUpdate, operation.TypeRecover, operation.TypeDeactivate}[T.Draw(4, "unauth.type")]

	var target *workload.Key

	if st != nil && !st.Deactivated {
		c := st.UpdateC
		if typ != operation.TypeUpdate {
			c = st.RecoveryC
		}

		target = w.byCommit[c]
	}

	if target == nil {
		pool := w.recKeys
		if typ == operation.TypeUpdate && len(w.updKeys) > 0 {
			pool = w.updKeys
		}

		target = pool[T.Draw(len(pool), "unauth.key")]
	}

	// C01 only: a transaction that was anchored BEFORE an already-processed genuine operation reaches the node late
	// (nodes may learn of anchored transactions out of order) and carries a copy of that operation with an altered
	// payload under the genuine header and signature
	if w.prop == "C01" && T.Draw(6, "unauth.late") == 0 && w.anchorLateTamperedTwin() {
		return
	}

	mallory := w.newKey("")
	t := w.advance()

	p := &opPlan{typ: typ, key: target, kind: "unauth"}

	// an unauthorised operation may declare an anchoring window - open or violated at its anchoring time
	if T.Draw(3, "unauth.windowed") == 0 {
		p.from, p.until = w.window(t)
	}

	if typ != operation.TypeDeactivate {
		p.patches = w.genPatches(false, false)
		p.nextUpd = w.newKey("")
	}

	if typ == operation.TypeRecover {
		p.nextRec = w.newKey("")
	}

	switch T.Draw(8, "unauth.class") {
	case 0: // another key revealed (the adversary's own), everything else proper
		p.key = mallory
		p.kind = "unauth-foreign-key"
	case 1: // right key named, signature made with another key
		p.signWith = mallory
		p.kind = "unauth-forged-signature"
	case 2:
		p.corruptSig = true
		p.kind = "unauth-corrupt-signature"
	case 3:
		p.tamper = "payload"
		p.kind = "unauth-tampered-payload"
	case 4:
		p.tamper = "header"
		p.kind = "unauth-tampered-header"
	case 7: // a signed operation whose protected header was re-serialised (same members, other octets) on its way
		p.tamper = "header-respaced"
		p.kind = "unauth-respaced-header"
	case 5: // reveal value of the committed key, but the signed data names (and is signed by) the adversary's key
		p.key = mallory
		p.revealOf = target
		p.kind = "unauth-reveal-mismatch"
	default: // signed by the adversary over the victim's key, reveal value of the adversary's key
		p.signWith = mallory
		p.revealOf = mallory
		p.kind = "unauth-reveal-mismatch-2"
	}

	// an unauthorised operation may in addition carry an unusable delta (an applier that takes its
	// "bad delta" shortcut before checking the signature must not let it through)
	if typ != operation.TypeDeactivate && T.Draw(3, "unauth.baddelta") == 0 {
		cls, failing, big := w.deltaClass("baddelta")
		p.delta, p.invalidBig = cls, big

		if failing {
			p.patches = w.genPatches(true, false)
		}

		p.kind += "+baddelta"
	}

	// ... or no delta at all (such a request parses in batch mode)
	if typ == operation.TypeUpdate && p.delta == refmodel.DeltaOK && T.Draw(8, "unauth.nodelta") == 0 {
		p.noDelta, p.delta = true, refmodel.DeltaInvalid
		p.kind += "+nodelta"
	}

	req, m := w.build(p)

	if strings.HasPrefix(p.kind, "unauth-foreign-key") {
		m.Authentic = true // validly signed – but by a key nobody committed to
	}

	w.stampNoAdvance(m)
	w.nontrivial = true
	w.k.Count("probe:" + p.kind)
	w.anchor(req, m, false, p.kind)
}

// anchorLateTamperedTwin: see anchorUnauthorised. Returns false when the history offers no suitable genuine operation.
func (w *aWorld) anchorLateTamperedTwin() bool {
	var g *aOp

	for i := len(w.ops) - 1; i >= 0 && g == nil; i-- {
		o := w.ops[i]
		if o.Legit && o.M.Published && o.M.Authentic && o.M.Delta == refmodel.DeltaOK && (o.M.Type == refmodel.Update || o.M.Type == refmodel.Recover) &&
			strings.Contains(o.Kind, "honest") && !strings.Contains(o.M.Label, "late") {
			g = o
		}
	}

	if g == nil {
		return false
	}

	// coordinates just before the genuine operation: same time, a lower unused number - or one second earlier
	used := map[[2]uint64]bool{}
	for _, o := range w.ops {
		used[[2]uint64{o.M.Time, o.M.Number}] = true
	}

	tt, tn, ok := g.M.Time, uint64(0), false

	for n := g.M.Number; n > 0 && !ok; n-- {
		if !used[[2]uint64{tt, n - 1}] {
			tn, ok = n-1, true
		}
	}

	if !ok {
		if tt == 0 {
			return false
		}

		tt--
		tn = 500 + uint64(w.k.T.Draw(400, "late.number"))

		for used[[2]uint64{tt, tn}] {
			tn++
		}
	}

	// the attacker's delta, and the genuine signed data with its delta hash pointed at it
	mallory := w.newKey("")
	pd := w.genPatches(false, false)
	patches, _ := workload.ToPatches(pd)
	delta := &model.DeltaModel{UpdateCommitment: mallory.Commitment(w.hash), Patches: patches}

	dh, err := hashing.CalculateModelMultihash(delta, w.hash)
	if err != nil {
		return false
	}

	var rm map[string]interface{}
	if json.Unmarshal(g.A.OperationRequest, &rm) != nil {
		return false
	}

	sd, _ := rm["signedData"].(string)
	rm["signedData"] = workload.TamperPayload(sd, func(mm map[string]interface{}) { mm["deltaHash"] = dh })

	db, _ := canonicalizer.MarshalCanonical(delta)

	var dm interface{}
	_ = json.Unmarshal(db, &dm)
	rm["delta"] = dm

	req, err := canonicalizer.MarshalCanonical(rm)
	if err != nil {
		return false
	}

	m := &refmodel.Op{Type: g.M.Type, Authentic: false, SuffixOK: true, Parses: true, Delta: refmodel.DeltaOK, Patches: pd, From: g.M.From, Until: g.M.Until,
		RevealCommit: g.M.RevealCommit, NextUpdate: mallory.Commitment(w.hash), NextRecovery: g.M.NextRecovery, Origin: g.M.Origin,
		Label: fmt.Sprintf("%s/late-tampered-twin-of-#%d", g.M.Type, g.M.ID), Time: tt, Number: tn, Published: true, MaxDelta: g.M.MaxDelta}

	pv := g.A.ProtocolVersion
	w.lateVersion = &pv
	w.nontrivial = true
	w.k.Count("probe:late-arriving-tampered-twin")
	w.anchor(req, m, false, "late-tampered-twin")
	w.lateVersion = nil

	return true
}

// ---- unpublished operations (C02: published always wins)

func (w *aWorld) addUnpublished(st *refmodel.State) {
	T := w.k.T

	if st == nil || st.Deactivated || st.UpdateC == "" || w.byCommit[st.UpdateC] == nil {
		w.anchorFork(st, false)

		return
	}

	p := &opPlan{typ: operation.TypeUpdate, key: w.byCommit[st.UpdateC], nextUpd: w.newKey("upd"), patches: w.genPatches(false, false), kind: "unpublished"}
	if T.Draw(4, "unpub.rec") == 0 && w.byCommit[st.RecoveryC] != nil {
		p.typ, p.key, p.nextRec = operation.TypeRecover, w.byCommit[st.RecoveryC], w.newKey("rec")

		// the recover may keep the update key the DID has now (an update under that key may be on its way to the ledger)
		if w.prop == "C02" && T.Draw(2, "unpub.rec.keeps-update-key") == 0 {
			p.nextUpd = w.byCommit[st.UpdateC]
		}
	}

	// the pending operation is stamped with the node's clock, which may lag behind the ledger's (the stamp is then earlier
	// than the anchoring time of the operation it builds on); it may declare an anchoring window around its stamp
	stamp := w.now
	if lag := uint64(T.Draw(4, "unpub.lag")) * 7; lag < stamp && T.Draw(3, "unpub.lagging") == 0 {
		stamp -= lag
	}

	if w.prop == "C05" || T.Draw(4, "unpub.windowed") == 0 {
		p.from, p.until = w.window(stamp)
	}

	req, m := w.build(p)
	m.ID = w.nextID
	w.nextID++
	m.Time = stamp
	m.Number = 0
	m.Published = false
	m.MaxDelta = refmodel.DeltaOf(w.version().P.MaxOperationTimeDelta)

	a := &operation.AnchoredOperation{Type: p.typ, UniqueSuffix: w.suffix, OperationRequest: req, TransactionTime: stamp, ProtocolVersion: w.version().P.GenesisTime}
	if m.Origin != "" {
		a.AnchorOrigin = m.Origin
	}

	op := &aOp{M: m, A: a, Legit: true, Kind: "unpublished"}
	w.ops = append(w.ops, op)
	w.unpubOp = op
	_ = w.unpub.Put(a)
	w.nontrivial = true
	w.k.Count("probe:unpublished-operation")
	w.k.Tr.Logf("#%d unpublished %s", w.k.Steps, m)
}

func (w *aWorld) publishUnpublished() {
	u := w.unpubOp
	w.unpubOp = nil

	// normally the pending copy is removed when the operation is anchored; now and then the clean-up lags (or failed) and
	// the stale copy stays in the unpublished store next to its anchored twin
	if w.prop == "C02" && u.M.Type != refmodel.Create && w.k.T.Draw(3, "unpub.stale-copy") == 0 {
		w.k.Count("probe:stale-unpublished-copy-next-to-anchored-twin")
	} else {
		_ = w.unpub.Delete(u.A)

		// remove the unpublished descriptor and anchor the same request
		for i, o := range w.ops {
			if o == u {
				w.ops = append(w.ops[:i:i], w.ops[i+1:]...)

				break
			}
		}
	}

	w.advance()

	m := *u.M
	m.Label += "/now-published"
	w.stampNoAdvance(&m)
	w.anchor(u.A.OperationRequest, &m, true, "publish-unpublished")
}

// publishedUpdateBesidePending: while the controller's recover is still pending, an update under the DID's published
// update commitment is anchored (it was submitted earlier, or comes from another holder of the key). It belongs before
// the recover, which is anchored later by definition.
func (w *aWorld) publishedUpdateBesidePending() bool {
	var pub []*refmodel.Op

	for _, o := range w.modelOps() {
		if o.Published {
			pub = append(pub, o)
		}
	}

	st, err := refmodel.Resolve(pub)
	if err != nil || st.Deactivated || st.UpdateC == "" || w.byCommit[st.UpdateC] == nil {
		return false
	}

	w.advance()

	p := &opPlan{typ: operation.TypeUpdate, key: w.byCommit[st.UpdateC], nextUpd: w.newKey("upd"), patches: w.genPatches(false, false), kind: "published-update-beside-pending-recover"}
	req, m := w.build(p)
	w.stampNoAdvance(m)
	w.k.Count("probe:published-update-beside-pending-recover")

	if w.unpubOp.M.NextUpdate == st.UpdateC {
		w.k.Count("probe:published-update-reveals-key-kept-by-pending-recover")
	}

	w.anchor(req, m, true, p.kind)

	return true
}

func (w *aWorld) competitorForUnpublished(st *refmodel.State) {
	u := w.unpubOp
	key := w.byCommit[u.M.RevealCommit]

	w.advance()

	p := &opPlan{typ: operation.Type(u.M.Type), key: key, nextUpd: w.newKey("upd"), patches: w.genPatches(false, false), kind: "published-competitor-of-unpublished"}
	if p.typ == operation.TypeRecover {
		p.nextRec = w.newKey("rec")
	}

	req, m := w.build(p)
	w.stampNoAdvance(m)
	w.k.Count("probe:published-vs-unpublished-competitor")
	w.anchor(req, m, true, p.kind)

	// the controller's pending operation lost; it is withdrawn after this round of checks
	if w.k.T.Draw(2, "unpub.withdraw") == 0 {
		w.oracles()
		_ = w.unpub.Delete(u.A)

		for i, o := range w.ops {
			if o == u {
				w.ops = append(w.ops[:i:i], w.ops[i+1:]...)

				break
			}
		}

		w.unpubOp = nil
	}
}

// ---------------------------------------------------------------- oracles

type concrete struct {
	Doc   refmodel.Doc
	UpdC  string
	RecC  string
	Deact bool
}

func extractDoc(d document.Document) refmodel.Doc {
	var out refmodel.Doc

	b, err := json.Marshal(d)
	if err != nil {
		return out
	}

	var m map[string]interface{}
	if json.Unmarshal(b, &m) != nil {
		return out
	}

	if l, ok := m["publicKey"].([]interface{}); ok {
		for _, e := range l {
			em, _ := e.(map[string]interface{})
			id, _ := em["id"].(string)
			out.Keys = append(out.Keys, refmodel.Entry{ID: id, Mark: workload.KeyMark(em)})
		}
	}

	if l, ok := m["service"].([]interface{}); ok {
		for _, e := range l {
			em, _ := e.(map[string]interface{})
			id, _ := em["id"].(string)
			out.Svcs = append(out.Svcs, refmodel.Entry{ID: id, Mark: workload.SvcMark(em)})
		}
	}

	if l, ok := m["alsoKnownAs"].([]interface{}); ok {
		for _, e := range l {
			s, _ := e.(string)
			out.AKA = append(out.AKA, s)
		}
	}

	out.Note, _ = m["note"].(string)

	if l, ok := m["tags"].([]interface{}); ok {
		for _, e := range l {
			s, _ := e.(string)
			out.Tags = append(out.Tags, s)
		}
	}

	return out
}

func docEqual(a, b refmodel.Doc) bool {
	return fmt.Sprint(a.Keys) == fmt.Sprint(b.Keys) && fmt.Sprint(a.Svcs) == fmt.Sprint(b.Svcs) && fmt.Sprint(a.AKA) == fmt.Sprint(b.AKA) && a.Note == b.Note &&
		fmt.Sprintf("%q", a.Tags) == fmt.Sprintf("%q", b.Tags)
}

// dump renders every field of a resolution result (optionally with the operation lists).
func dump(rm *protocol.ResolutionModel, err error, withOps bool) string {
	if err != nil {
		return "error"
	}

	docB, _ := json.Marshal(rm.Doc)
	s := fmt.Sprintf("doc=%s upd=%s rec=%s deact=%v created=%d updated=%d last=(%d,%d,v%d) version=%s canon=%s equiv=%v origin=%v",
		docB, rm.UpdateCommitment, rm.RecoveryCommitment, rm.Deactivated, rm.CreatedTime, rm.UpdatedTime,
		rm.LastOperationTransactionTime, rm.LastOperationTransactionNumber, rm.LastOperationProtocolVersion, rm.VersionID, rm.CanonicalReference,
		rm.EquivalentReferences, rm.AnchorOrigin)

	if withOps {
		s += " published=" + opList(rm.PublishedOperations) + " unpublished=" + opList(rm.UnpublishedOperations)
	}

	return s
}

func opList(ops []*operation.AnchoredOperation) string {
	var parts []string
	for _, o := range ops {
		parts = append(parts, fmt.Sprintf("%s@(%d,%d)%s:%s", o.Type, o.TransactionTime, o.TransactionNumber, o.CanonicalReference, simenv.ReqKey(o.OperationRequest)[:6]))
	}

	return "[" + strings.Join(parts, " ") + "]"
}

// resolve calls the real processor, converting a panic or a hang into a violation.
func (w *aWorld) resolve(p *processor.OperationProcessor, opts ...document.ResolutionOption) (rm *protocol.ResolutionModel, err error) {
	defer func() {
		if r := recover(); r != nil {
			w.fail(w.prop, "resolve/panic", fmt.Sprintf("Resolve panicked: %v\n%s", r, debug.Stack()))
			err = fmt.Errorf("panic")
		}
	}()

	return p.Resolve(w.suffix, opts...)
}

func (w *aWorld) permute(n int) []int {
	perm := make([]int, n)
	for i := range perm {
		perm[i] = i
	}

	for i := n - 1; i > 0; i-- {
		j := w.k.T.Draw(i+1, "store.perm")
		perm[i], perm[j] = perm[j], perm[i]
	}

	return perm
}

func (w *aWorld) oracles() {
	// every Get returns a tape-chosen permutation (F-store-order)
	w.store.Permute = w.permute
	w.shadow.Permute = w.permute

	rm, err := w.resolve(w.proc)
	if w.k.Viol != nil {
		return
	}

	st, merr := refmodel.Resolve(w.modelOps())
	if st != nil {
		w.lastNote = st.Doc.Note
	}

	h := fnv.New64a()
	if st != nil {
		fmt.Fprint(h, st.String())
	}

	w.stateSeq = w.stateSeq*1099511628211 ^ h.Sum64()

	switch w.prop {
	case "C03", "C05", "C12":
		w.oracleModel(rm, err, st, merr)

		if w.prop == "C05" && w.k.Viol == nil {
			w.oracleAltParams(rm, err)
		}
	case "C02":
		w.oracleModel(rm, err, st, merr)

		if w.k.Viol == nil {
			w.oraclePermutations(rm, err)
		}
	case "C01":
		w.oracleShadow(rm, err)

		if w.k.Viol == nil {
			w.oracleModel(rm, err, st, merr)
		}
	case "C04":
		w.oracleTerminal(rm, err, st)

		if w.k.Viol == nil {
			w.oracleModel(rm, err, st, merr)
		}
	case "C06":
		w.oracleTimeTravel()
	}
}

// oracleModel: equality with the reference state machine on the fields the statements fix.
func (w *aWorld) oracleModel(rm *protocol.ResolutionModel, err error, st *refmodel.State, merr error) {
	prop := w.prop

	if merr != nil || err != nil {
		if (merr != nil) != (err != nil) {
			w.fail(prop, "model/error-mismatch", fmt.Sprintf("reference model: %v, Resolve: %v", merr, err))
		}

		return
	}

	got := concrete{Doc: extractDoc(rm.Doc), UpdC: rm.UpdateCommitment, RecC: rm.RecoveryCommitment, Deact: rm.Deactivated}

	var diffs []string

	if got.Deact != st.Deactivated {
		diffs = append(diffs, fmt.Sprintf("deactivated: got %v want %v", got.Deact, st.Deactivated))
	}

	if got.UpdC != st.UpdateC {
		diffs = append(diffs, fmt.Sprintf("update commitment: got …%s want …%s", tail6(got.UpdC), tail6(st.UpdateC)))
	}

	if got.RecC != st.RecoveryC {
		diffs = append(diffs, fmt.Sprintf("recovery commitment: got …%s want …%s", tail6(got.RecC), tail6(st.RecoveryC)))
	}

	if !docEqual(got.Doc, st.Doc) {
		diffs = append(diffs, fmt.Sprintf("document: got {%s} want {%s}", got.Doc, st.Doc))
	}

	if len(diffs) > 0 {
		oracle := "model/state"

		switch {
		case prop == "C05":
			oracle = "window/state"
		case prop == "C12":
			oracle = "chain/state"
		case prop == "C02":
			oracle = "earliest-wins/state"
		}

		w.fail(prop, oracle, fmt.Sprintf("after %d events (%s): %s; model applied %v", len(w.ops), w.ops[len(w.ops)-1].M, strings.Join(diffs, "; "), st.Applied))
	}
}

// metaOps renders the operation lists of the transformed resolution metadata (the transformer sorts them itself).
func (w *aWorld) metaOps(rm *protocol.ResolutionModel, err error) string {
	if err != nil || rm == nil {
		return "error"
	}

	// the transformer sorts the slices it is given in place: hand it copies
	cp := *rm
	cp.PublishedOperations = append([]*operation.AnchoredOperation(nil), rm.PublishedOperations...)
	cp.UnpublishedOperations = append([]*operation.AnchoredOperation(nil), rm.UnpublishedOperations...)

	tr := didtransformer.New(didtransformer.WithIncludePublishedOperations(true), didtransformer.WithIncludeUnpublishedOperations(true))

	res, terr := tr.TransformDocument(&cp, protocol.TransformationInfo{document.IDProperty: "did:sim:" + w.suffix, document.PublishedProperty: len(rm.PublishedOperations) > 0})
	if terr != nil {
		return "transform error: " + terr.Error()
	}

	method, _ := res.DocumentMetadata[document.MethodProperty].(document.Metadata)
	b, _ := json.Marshal([]interface{}{method[document.PublishedOperationsProperty], method[document.UnpublishedOperationsProperty]})

	// published operations must be listed in anchoring order
	if pl, ok := method[document.PublishedOperationsProperty].([]*metadata.PublishedOperation); ok {
		for i := 1; i < len(pl); i++ {
			a, c := pl[i-1], pl[i]
			if a.TransactionTime > c.TransactionTime || (a.TransactionTime == c.TransactionTime && a.TransactionNumber > c.TransactionNumber) {
				w.fail("C02", "metadata/published-order", fmt.Sprintf("resolution metadata lists published operation (%d,%d) before (%d,%d)", a.TransactionTime, a.TransactionNumber, c.TransactionTime, c.TransactionNumber))
			}
		}
	}

	return string(b)
}

// oraclePermutations: whatever order the store returns operations in, the result is identical.
func (w *aWorld) oraclePermutations(rm *protocol.ResolutionModel, err error) {
	baseMeta := w.metaOps(rm, err)
	base := dump(rm, err, true)
	n := 2 + w.k.T.Draw(4, "perm.count")

	for i := 0; i < n; i++ {
		rm2, err2 := w.resolve(w.proc)
		if d := dump(rm2, err2, true); d != base {
			w.fail("C02", "order-dependence", fmt.Sprintf("two store orders give different results after %d events:\n A: %s\n B: %s", len(w.ops), base, d))

			return
		}

		if m := w.metaOps(rm2, err2); m != baseMeta && w.k.Viol == nil {
			w.fail("C02", "metadata/order-dependence", fmt.Sprintf("two store orders give different operation lists in the transformed metadata after %d events", len(w.ops)))

			return
		}
	}

	// part of the anchored history may reach the resolver through the additional-operations option (operations the node
	// has received but not stored yet) instead of the store - with the unpublished store as it is, which may still hold the
	// pending copy of one of them: the result is the same function of the same set of anchored operations
	var pub []*aOp

	for _, o := range w.ops {
		if o.M.Published {
			pub = append(pub, o)
		}
	}

	if len(pub) >= 2 && w.k.T.Draw(2, "perm.additional") == 0 {
		tmp := simenv.NewOpStore(w.k, "")
		tmp.Permute = w.permute

		var extra []*operation.AnchoredOperation

		for i, o := range pub {
			c := *o.A
			if i > 0 && w.k.T.Draw(3, "perm.additional.pick") == 0 {
				extra = append(extra, &c)
			} else {
				tmp.Insert(&c)
			}
		}

		for i := len(extra) - 1; i > 0; i-- {
			j := w.k.T.Draw(i+1, "perm.additional.perm")
			extra[i], extra[j] = extra[j], extra[i]
		}

		if len(extra) > 0 {
			w.k.Count("probe:history-partly-as-additional-operations")

			// the store may be one that hands out its own slice: what it holds must be the same before and after a
			// resolution that was given additional operations
			tmp.Shared = w.k.T.Draw(2, "perm.additional.shared") == 0
			storeOnly := processor.New("split-store-only", tmp, w.pc)
			rmB, errB := w.resolve(storeOnly)
			before := dump(rmB, errB, true)

			rm4, err4 := w.resolve(processor.New("split", tmp, w.pc, processor.WithUnpublishedOperationStore(w.unpub)), document.WithAdditionalOperations(extra))

			if rmA, errA := w.resolve(storeOnly); dump(rmA, errA, true) != before {
				w.fail("C02", "additional-operations/store-changed", fmt.Sprintf("a resolution that was given %d additional operations changed what later resolutions of the same store return (the store hands out its own slice):\n before: %s\n after:  %s", len(extra), before, dump(rmA, errA, true)))

				return
			}

			if d := dump(rm4, err4, true); d != base {
				w.fail("C02", "additional-operations", fmt.Sprintf("supplying %d of the %d anchored operations through the additional-operations option instead of the store changes the result:\n store only: %s\n split:      %s", len(extra), len(pub), base, d))

				return
			}
		}
	}

	// and the sorted order
	w.store.Permute = nil

	rm3, err3 := w.resolve(w.proc)
	if d := dump(rm3, err3, true); d != base {
		w.fail("C02", "order-dependence", fmt.Sprintf("insertion order and a permuted order give different results after %d events:\n A: %s\n B: %s", len(w.ops), d, base))
	}
}

// oracleShadow (C01): a store holding only the legitimate operations resolves identically.
func (w *aWorld) oracleShadow(rm *protocol.ResolutionModel, err error) {
	rs, errS := w.resolve(w.procSh)

	a, b := dump(rm, err, false), dump(rs, errS, false)
	if a != b {
		last := w.ops[len(w.ops)-1]
		w.fail("C01", "shadow-store", fmt.Sprintf("after anchoring %s (legit=%v) the result differs from the result over legitimate operations only:\n full:   %s\n shadow: %s", last.M, last.Legit, a, b))
	}
}

// oracleAltParams (C05): the window depends on no other protocol parameter.
func (w *aWorld) oracleAltParams(rm *protocol.ResolutionModel, err error) {
	ra, erra := w.resolve(w.procAlt)

	a, b := dump(rm, err, false), dump(ra, erra, false)
	if a != b {
		w.fail("C05", "window/other-parameter", fmt.Sprintf("changing only protocol parameters other than the maximum operation time delta changed the result:\n A: %s\n B: %s", a, b))
	}
}

// oracleTerminal (C04): after deactivation nothing changes; a recover supersedes earlier updates.
func (w *aWorld) oracleTerminal(rm *protocol.ResolutionModel, err error, st *refmodel.State) {
	cur := dump(rm, err, false)

	// (with arbitrary transaction numbers a later event may sort BEFORE the deactivate and legitimately
	// change what is resolved; the snapshot oracle applies when event order is anchoring order, the
	// reference model covers the rest)
	if w.scheme == 2 && st != nil && st.Deactivated {
		return
	}

	if w.deactSnap != "" {
		if cur != w.deactSnap {
			last := w.ops[len(w.ops)-1]
			w.fail("C04", "deactivated/changed", fmt.Sprintf("the DID was deactivated after event %d; anchoring %s changed its resolution:\n before: %s\n after:  %s", w.deactAt, last.M, w.deactSnap, cur))
		}

		return
	}

	if st != nil && st.Deactivated {
		if err != nil || !rm.Deactivated || rm.UpdateCommitment != "" || rm.RecoveryCommitment != "" || len(rm.Doc) != 0 && len(extractDoc(rm.Doc).Keys)+len(extractDoc(rm.Doc).Svcs) > 0 {
			w.fail("C04", "deactivated/state", fmt.Sprintf("a valid deactivate was applied but the DID resolves as %s", cur))

			return
		}

		w.deactSnap = cur
		w.deactAt = len(w.ops)
		w.nontrivial = true
		w.k.Count("probe:deactivated")

		return
	}

	// recover supersedes: dropping every update anchored at or before the last applied recover changes nothing
	if st == nil || err != nil {
		return
	}

	var lastFull *refmodel.Op

	for _, o := range w.ops {
		if o.M.ID == st.LastFull {
			lastFull = o.M
		}
	}

	if lastFull == nil || lastFull.Type != refmodel.Recover || !lastFull.Published {
		return
	}

	tmp := simenv.NewOpStore(w.k, "")
	dropped := 0

	for _, o := range w.ops {
		if !o.M.Published {
			continue
		}

		if o.M.Type == refmodel.Update && (o.M.Time < lastFull.Time || (o.M.Time == lastFull.Time && o.M.Number <= lastFull.Number)) {
			dropped++

			continue
		}

		c := *o.A
		tmp.Insert(&c)
	}

	if dropped == 0 {
		return
	}

	w.k.Count("probe:recover-with-earlier-updates")
	w.nontrivial = true

	rt, errt := w.resolve(processor.New("tmp", tmp, w.pc, processor.WithUnpublishedOperationStore(w.unpub)))
	if d := dump(rt, errt, false); d != cur {
		w.fail("C04", "recover/earlier-update-applied", fmt.Sprintf("removing the %d updates anchored at or before the last applied recover %s changes the result:\n with:    %s\n without: %s", dropped, lastFull, cur, d))
	}
}

// oracleTimeTravel (C06): resolving at a version time / id equals resolving the truncated history.
func (w *aWorld) oracleTimeTravel() {
	// sorted published operations
	var pub []*aOp

	for _, o := range w.ops {
		if o.M.Published {
			pub = append(pub, o)
		}
	}

	sort.SliceStable(pub, func(i, j int) bool {
		if pub[i].M.Time != pub[j].M.Time {
			return pub[i].M.Time < pub[j].M.Time
		}

		return pub[i].M.Number < pub[j].M.Number
	})

	// The resolver may get part of the (published) history through the WithAdditionalOperations option
	// instead of the store; what it resolves to must not depend on that split.
	split := func(opts ...document.ResolutionOption) (*processor.OperationProcessor, []document.ResolutionOption) {
		if len(pub) < 2 || w.k.T.Draw(2, "tt.additional") == 0 {
			return w.proc, opts
		}

		tmp := simenv.NewOpStore(w.k, "")
		tmp.Permute = w.permute

		var extra []*operation.AnchoredOperation

		for i, o := range pub {
			c := *o.A
			if i > 0 && w.k.T.Draw(3, "tt.additional.pick") == 0 {
				extra = append(extra, &c)
			} else {
				tmp.Insert(&c)
			}
		}

		for i := len(extra) - 1; i > 0; i-- {
			j := w.k.T.Draw(i+1, "tt.additional.perm")
			extra[i], extra[j] = extra[j], extra[i]
		}

		if len(extra) > 0 {
			w.k.Count("probe:history-partly-as-additional-operations")
		}

		return processor.New("split", tmp, w.pc, processor.WithUnpublishedOperationStore(w.unpub)), append(opts, document.WithAdditionalOperations(extra))
	}

	// A controller's pending (unpublished) operation may be in the unpublished-operation store. It is not anchored,
	// so the property does not say whether a cut shows it; what it does say is that operations anchored later
	// never change what an earlier cut resolves to. For a time cut both sides therefore see the same unpublished
	// store; for a version-id cut (a position in the anchored history, which unpublished operations follow) the
	// expectation is the anchored prefix alone.
	truncated := func(withUnpub bool, keep func(i int, o *aOp) bool) *processor.OperationProcessor {
		tmp := simenv.NewOpStore(w.k, "")
		tmp.Permute = w.permute

		for i, o := range pub {
			if keep(i, o) {
				c := *o.A
				tmp.Insert(&c)
			}
		}

		if withUnpub {
			return processor.New("trunc", tmp, w.pc, processor.WithUnpublishedOperationStore(w.unpub))
		}

		return processor.New("trunc", tmp, w.pc)
	}

	// cut points by time
	times := map[uint64]bool{}
	for _, o := range pub {
		times[o.M.Time], times[o.M.Time+1] = true, true

		if o.M.Time > 0 {
			times[o.M.Time-1] = true
		}
	}

	if w.unpubOp != nil {
		times[w.unpubOp.M.Time], times[w.unpubOp.M.Time+1] = true, true
	}

	var ts []uint64
	for t := range times {
		ts = append(ts, t)
	}

	sort.Slice(ts, func(i, j int) bool { return ts[i] < ts[j] })

	// sample at most 6 time cuts and 4 version cuts per event, always including the newest
	pickT := ts
	if len(pickT) > 6 {
		pickT = nil

		for i := 0; i < 5; i++ {
			pickT = append(pickT, ts[w.k.T.Draw(len(ts), "tt.time")])
		}

		pickT = append(pickT, ts[len(ts)-1])
	}

	for _, t := range pickT {
		// the same instant may be written in any RFC 3339 offset; half of the time the option travels through
		// the real REST resolve handler (query parameter parsing) before it reaches the processor
		zones := []*time.Location{time.UTC, time.FixedZone("", 2*3600), time.FixedZone("", -5*3600), time.FixedZone("", 5*3600+1800)}
		vt := time.Unix(int64(t), 0).In(zones[w.k.T.Draw(len(zones), "tt.zone")]).Format(time.RFC3339)

		// ... and with fractional seconds (as Date.toISOString writes them): t+0.7 s is still "at or before" only for
		// operations anchored at or before t
		if f := w.k.T.Draw(6, "tt.fraction"); f >= 3 {
			nanos := []int64{500_000_000, 700_000_000, 999_000_000}[f-3]
			vt = time.Unix(int64(t), nanos).In(zones[w.k.T.Draw(len(zones), "tt.zone")]).Format(time.RFC3339Nano)
			w.k.Count("probe:version-time-with-fractional-seconds")
		}
		timeOpt := document.WithVersionTime(vt)

		if w.k.T.Draw(2, "tt.rest") == 0 {
			ro, code := w.viaREST("versionTime", vt)
			if code != http.StatusOK {
				w.fail("C06", "version-time/rest-refused", fmt.Sprintf("the REST resolve handler answered %d for versionTime=%s", code, vt))

				return
			}

			timeOpt = func(o *document.ResolutionOptions) {
				for _, f := range ro {
					f(o)
				}
			}

			w.k.Count("probe:version-time-through-rest")
		}

		proc, opts := split(timeOpt)
		got, gerr := w.resolve(proc, opts...)

		any := false
		for _, o := range pub {
			any = any || o.M.Time <= t
		}

		if !any {
			if gerr == nil {
				w.fail("C06", "version-time/before-first", fmt.Sprintf("resolving at time %d, before the first operation, succeeded", t))

				return
			}

			continue
		}

		var (
			want *protocol.ResolutionModel
			werr error
		)

		if w.unpubOp == nil {
			want, werr = w.resolve(truncated(false, func(_ int, o *aOp) bool { return o.M.Time <= t }))
		} else {
			// with a pending unpublished operation: the same question asked of the history without the later-anchored operations
			want, werr = w.resolve(truncated(true, func(_ int, o *aOp) bool { return o.M.Time <= t }), document.WithVersionTime(vt))
		}

		if w.unpubOp != nil && w.unpubOp.M.Time <= t && countUpTo(pub, t) < len(pub) {
			w.k.Count("probe:version-time-cut-between-unpublished-and-later-anchored")
		}

		if a, b := dump(got, gerr, true), dump(want, werr, true); a != b {
			w.fail("C06", "version-time", fmt.Sprintf("resolving at version time %d differs from resolving only the operations anchored at or before it (%d of %d operations):\n at time:   %s\n truncated: %s", t, countUpTo(pub, t), len(pub), a, b))

			return
		}

		w.k.Count("probe:version-time-cut")

		if countUpTo(pub, t) < len(pub) {
			w.nontrivial = true
		}
	}

	idx := make([]int, 0, 4)
	for i := 0; i < 3 && len(pub) > 0; i++ {
		idx = append(idx, w.k.T.Draw(len(pub), "tt.version"))
	}

	if len(pub) > 0 {
		idx = append(idx, len(pub)-1)
	}

	for _, i := range idx {
		v := pub[i].A.CanonicalReference
		idOpt := document.WithVersionID(v)

		if w.k.T.Draw(2, "tt.rest") == 0 {
			ro, code := w.viaREST("versionId", v)
			if code != http.StatusOK {
				w.fail("C06", "version-id/rest-refused", fmt.Sprintf("the REST resolve handler answered %d for versionId=%s", code, v))

				return
			}

			idOpt = func(o *document.ResolutionOptions) {
				for _, f := range ro {
					f(o)
				}
			}
		}

		proc, opts := split(idOpt)
		got, gerr := w.resolve(proc, opts...)
		want, werr := w.resolve(truncated(false, func(j int, _ *aOp) bool { return j <= i }))

		if a, b := dump(got, gerr, true), dump(want, werr, true); a != b {
			w.fail("C06", "version-id", fmt.Sprintf("resolving at version id %s (operation %d of %d in anchoring order) differs from resolving the history up to and including it:\n at version: %s\n truncated:  %s", v, i+1, len(pub), a, b))

			return
		}

		w.k.Count("probe:version-id-cut")
	}

	if _, e := w.resolve(w.proc, document.WithVersionID("no-such-version")); e == nil {
		w.fail("C06", "version-id/unknown", "resolving at an unknown version id succeeded")
	}

	// query strings as a client that does not escape writes them: ';' is a legal query character, '%' may be stray. Whatever
	// the REST layer makes of them, a request that names a version must never be answered from the current state.
	if len(pub) > 0 && w.k.T.Draw(3, "tt.rawquery") == 0 {
		raws := []string{
			"versionId=no-such;version",
			"versionId=" + pub[len(pub)-1].A.CanonicalReference + ";x",
			"versionTime=1969-12-31T23:59:59Z;x",
			"versionId=no-such-version%zz",
			"versionTime=1969-12-31T23:59:59Z%",
			// the parameter given twice, the first time empty
			"versionId=&versionId=no-such-version",
			"versionTime=&versionTime=1969-12-31T23:59:59Z",
		}
		raw := raws[w.k.T.Draw(len(raws), "tt.rawquery.which")]

		// ... possibly next to a well-formed parameter that has nothing to do with versions
		switch w.k.T.Draw(3, "tt.rawquery.other") {
		case 1:
			raw = "service=files&" + raw
		case 2:
			raw += "&relativeRef=%2Fa"
		}
		ro, code := w.viaRESTRaw(raw)
		w.k.Count("probe:version-parameter-in-unescaped-query")

		if code == http.StatusOK {
			var o document.ResolutionOptions
			for _, f := range ro {
				f(&o)
			}

			if o.VersionID == "" && o.VersionTime == "" {
				w.fail("C06", "rest/version-parameter-dropped", fmt.Sprintf("the REST resolve handler answered the query %q, which names a version, by resolving the current state (no version option was passed on)", raw))
			} else if _, e := w.resolve(w.proc, ro...); e == nil {
				w.fail("C06", "version-id/unknown", fmt.Sprintf("the query %q, which names no version of this DID's history, was resolved (options %+v)", raw, o))
			}
		}
	}

	// a time long before the first operation - before the epoch - is an error like any other time before the first operation
	if len(pub) > 0 {
		for _, early := range []string{"1969-12-31T23:59:59Z", "1901-01-01T00:00:00Z", "0001-01-01T00:00:00Z"} {
			if _, e := w.resolve(w.proc, document.WithVersionTime(early)); e == nil {
				w.fail("C06", "version-time/before-first", fmt.Sprintf("resolving at version time %s, before the first operation, succeeded", early))

				break
			}
		}
	}
}

// viaRESTRaw sends a resolve request with the given query string, unescaped, through the real REST handler.
func (w *aWorld) viaRESTRaw(rawQuery string) ([]document.ResolutionOption, int) {
	w.viaREST("versionId", "x") // (sets the router up)

	w.restCap.opts = nil

	req := httptest.NewRequest(http.MethodGet, "/identifiers/did:sim:"+w.suffix, nil)
	req.URL.RawQuery = rawQuery
	req.RequestURI = req.URL.Path + "?" + rawQuery

	rr := httptest.NewRecorder()
	w.rest.ServeHTTP(rr, req)

	return w.restCap.opts, rr.Code
}

// optCapture stands in for the document handler behind the REST resolve handler: it records the
// resolution options the REST layer derived from the query string.
type optCapture struct{ opts []document.ResolutionOption }

func (c *optCapture) ResolveDocument(_ string, opts ...document.ResolutionOption) (*document.ResolutionResult, error) {
	c.opts = opts

	return &document.ResolutionResult{}, nil
}

// viaREST sends a resolve request with one query parameter through the real REST handler and returns the options it produced.
func (w *aWorld) viaREST(param, value string) ([]document.ResolutionOption, int) {
	if w.rest == nil {
		w.restCap = &optCapture{}
		w.rest = mux.NewRouter()
		w.rest.HandleFunc("/identifiers/{id}", restdoc.NewResolveHandler(w.restCap, &mocks.MetricsProvider{}).Resolve)
	}

	w.restCap.opts = nil

	rr := httptest.NewRecorder()
	w.rest.ServeHTTP(rr, httptest.NewRequest(http.MethodGet, "/identifiers/did:sim:"+w.suffix+"?"+param+"="+url.QueryEscape(value), nil))

	return w.restCap.opts, rr.Code
}

func countUpTo(pub []*aOp, t uint64) int {
	n := 0

	for _, o := range pub {
		if o.M.Time <= t {
			n++
		}
	}

	return n
}

func init() {
	for _, p := range []string{"C01", "C02", "C03", "C04", "C05", "C06", "C12"} {
		p := p
		weight := 1
		if p == "C06" {
			weight = 2 // C06 has a second scenario through the whole node (world B)
		}

		register(p, Scenario{Name: "A-direct", World: "A", Weight: weight, Run: func(rc *RunCtx) *RunResult { return runWorldA(rc, p) }})
	}
}
