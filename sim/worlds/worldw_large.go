package worlds

import (
	"errors"
	"fmt"
	"time"

	"github.com/trustbloc/sidetree-core-go/pkg/api/operation"
	"github.com/trustbloc/sidetree-core-go/pkg/api/txn"
	"github.com/trustbloc/sidetree-core-go/pkg/versions/1_0/operationparser"
	"github.com/trustbloc/sidetree-core-go/pkg/versions/1_0/txnprovider"

	"verifsim/simenv"
	"verifsim/simkit"
	"verifsim/workload"
)

// runLargeBatch (C13, "maximum-size batches"): one batch whose size sits on a decimal boundary – up to the
// 10,000 operations of a production protocol configuration – goes through the real operation handler into the
// simulated CAS (one write may fail first, the cutter would then retry the same operations) and is read back by
// an independent operation provider. The writer's scheduling plays no part here (worlds W-M1/W-M2 cover it with
// small batches); what this adds is the size dimension those worlds cannot afford.
func runLargeBatch(rc *RunCtx) *RunResult { return runLargeBatchFor(rc, "C13") }

// runLargeBatchFor: for C13 the batch is written and read back; for C15 it is additionally handed to the real
// transaction processor over a simulated operation store whose writes may fail: one all-or-nothing write per
// transaction, every operation stamped.
func runLargeBatchFor(rc *RunCtx, prop string) *RunResult {
	k := rc.K
	k.PanicProp = prop
	k.Props = map[string]bool{prop: true}
	T := k.T
	start := time.Now()

	fail := func(oracle, detail string) {
		k.Fail(&simkit.Violation{Property: prop, Oracle: oracle, Detail: detail, Fingerprint: prop + "/" + oracle})
	}

	// size: mostly two and three digits, sometimes four, rarely five (a five-digit batch costs seconds)
	var base int

	switch x := T.Draw(20, "large.magnitude"); {
	case x < 9:
		base = 100
	case x < 17:
		base = 1000
	default:
		base = 10000
	}

	n := base - 1 + T.Draw(3, "large.offset") // one below, at, one above the boundary
	atMax := T.Draw(2, "large.atmax") == 0    // the batch is exactly the configured maximum, or the maximum is larger

	p := simenv.DefaultProtocol(0)
	p.MaxOperationCount = uint(n)

	if !atMax {
		p.MaxOperationCount = uint(n + 1 + T.Draw(50, "large.slack"))
	}

	p.MaxChunkFileSize, p.MaxProvisionalIndexFileSize, p.MaxCoreIndexFileSize, p.MaxProofFileSize = 1<<26, 1<<26, 1<<26, 1<<26
	p.MaxMemoryDecompressionFactor = 20

	cas := simenv.NewCAS(k, "")
	failAt := -1

	if rc.Opt["faultfree"] != "1" && T.Draw(3, "large.fault") == 0 {
		failAt = T.Draw(5, "large.failat")
	}

	var files [][]byte

	cas.WriteFault = func(i int, content []byte) error {
		files = append(files, append([]byte(nil), content...))

		if i == failAt {
			k.Count("fault:cas.werr")

			return errors.New("injected CAS write failure")
		}

		return nil
	}

	store := simenv.NewOpStore(k, "")
	putFailAt := -1

	if prop == "C15" && rc.Opt["faultfree"] != "1" {
		putFailAt = T.Draw(4, "large.putfail") - 1 // -1: no store fault; otherwise the index of the failing write
	}

	store.PutFault = func(i int) error {
		if i == putFailAt {
			k.Count("fault:store.perr")

			return errors.New("injected store write failure")
		}

		return nil
	}

	v := simenv.NewVersion(p, &simenv.VersionDeps{CAS: cas, OpStore: store})
	checker := txnprovider.NewOperationProvider(p, operationparser.New(p), cas, simenv.NewCompressionProxy(nil))

	// workload: one operation per DID, all four types
	kg := &workload.KeyGen{}
	ops := make([]*operation.QueuedOperation, 0, n)
	want := map[string]*operation.QueuedOperation{}
	counts := map[operation.Type]int{}

	var prevRec *workload.Key

	for i := 0; i < n; i++ {
		upd, rec := kg.New(workload.Ed25519, false), kg.New(workload.Ed25519, false)

		// now and then a DID shares its recovery key with the previous one (one controller, several DIDs)
		if prevRec != nil && T.Draw(6, "large.sharedrec") == 0 {
			rec = prevRec
		}

		prevRec = rec
		patches, _ := workload.ToPatches([]workload.PatchDesc{{Kind: workload.AddKey, IDs: []string{"k1"}, Mark: fmt.Sprintf("m%d", i)}})

		create, err := workload.Build(&workload.OpSpec{Type: operation.TypeCreate, Hash: simenv.SHA2_256, NextUpdate: upd, NextRecovery: rec, Patches: patches, AnchorOrigin: "o"})
		if err != nil {
			panic(err)
		}

		parsed, err := v.Parser.ParseCreateOperation(create, true)
		if err != nil {
			panic(err)
		}

		q := &operation.QueuedOperation{Type: operation.TypeCreate, OperationRequest: create, UniqueSuffix: parsed.UniqueSuffix, Namespace: "did:sim", AnchorOrigin: "o"}

		switch t := T.Draw(10, "large.type"); {
		case t < 6:
		case t < 8:
			svc, _ := workload.ToPatches([]workload.PatchDesc{{Kind: workload.AddSvc, IDs: []string{"s1"}, Mark: fmt.Sprintf("m%d", i)}})
			req, err := workload.Build(&workload.OpSpec{Type: operation.TypeUpdate, Suffix: parsed.UniqueSuffix, Hash: simenv.SHA2_256, SignKey: upd, NextUpdate: kg.New(workload.Ed25519, false), Patches: svc})
			if err != nil {
				panic(err)
			}

			q.Type, q.OperationRequest, q.AnchorOrigin = operation.TypeUpdate, req, nil
		case t < 9:
			req, err := workload.Build(&workload.OpSpec{Type: operation.TypeRecover, Suffix: parsed.UniqueSuffix, Hash: simenv.SHA2_256, SignKey: rec,
				NextUpdate: kg.New(workload.Ed25519, false), NextRecovery: kg.New(workload.Ed25519, false), Patches: patches, AnchorOrigin: "o2"})
			if err != nil {
				panic(err)
			}

			q.Type, q.OperationRequest, q.AnchorOrigin = operation.TypeRecover, req, "o2"
		default:
			req, err := workload.Build(&workload.OpSpec{Type: operation.TypeDeactivate, Suffix: parsed.UniqueSuffix, Hash: simenv.SHA2_256, SignKey: rec})
			if err != nil {
				panic(err)
			}

			q.Type, q.OperationRequest, q.AnchorOrigin = operation.TypeDeactivate, req, nil
		}

		ops = append(ops, q)
		want[q.UniqueSuffix] = q
		counts[q.Type]++

		if i%500 == 0 {
			Heartbeat()
		}
	}

	k.Tr.Logf("large batch: %d operations (max %d): %v, CAS write %d fails", n, p.MaxOperationCount, counts, failAt)

	Heartbeat()

	info, err := v.Handler.PrepareTxnFiles(ops)

	Heartbeat()

	if err != nil && failAt >= 0 {
		k.Tr.Logf("first attempt failed (%s); the same operations are handed in again", simkit.FirstLine(err.Error()))
		info, err = v.Handler.PrepareTxnFiles(ops)
	}

	res := &RunResult{
		SimSeconds: time.Since(start).Seconds(), Nontrivial: true, StateHash: uint64(n)*4 + uint64(failAt+1),
		Real: []string{"txnprovider.OperationHandler", "txnprovider.OperationProvider", "operationparser", "compression(gzip)", "client request builders", "edsigner"},
		Stub: []string{"CAS"},
	}

	finish := func() *RunResult {
		res.Viol = k.Viol

		return res
	}

	if err != nil {
		fail("large/handler-error", fmt.Sprintf("a batch of %d operations (maximum %d) was refused by the operation handler: %v", n, p.MaxOperationCount, err))

		return finish()
	}

	if len(info.ExpiredOperations) != 0 || len(info.AdditionalOperations) != 0 {
		fail("partition", fmt.Sprintf("a batch of %d operations for %d distinct DIDs, none with a validity window: handler reports %d deferred, %d expired", n, n,
			len(info.AdditionalOperations), len(info.ExpiredOperations)))

		return finish()
	}

	t := &txn.SidetreeTxn{Namespace: "did:sim", AnchorString: info.AnchorString, TransactionTime: ledgerBase, ProtocolVersion: 0, CanonicalReference: "cref0"}

	ad, err := txnprovider.ParseAnchorData(info.AnchorString)
	if err != nil {
		fail("readback/anchor-string", fmt.Sprintf("anchor string %q of a batch with %d included operations does not parse: %v", info.AnchorString, n, err))

		return finish()
	}

	Heartbeat()

	got, err := checker.GetTxnOperations(t)

	Heartbeat()

	if err != nil {
		fail("readback/error", fmt.Sprintf("reading back txn with %d included operations failed: %v", n, err))

		return finish()
	}

	if ad.NumberOfOperations != len(got) || len(got) != n {
		fail("readback/count", fmt.Sprintf("anchor string says %d, read back %d, expected %d operations", ad.NumberOfOperations, len(got), n))

		return finish()
	}

	lastRank := -1

	for i, g := range got {
		q := want[g.UniqueSuffix]
		if q == nil {
			fail("readback/suffix", fmt.Sprintf("read-back operation %d has suffix %s which is not in the batch (or twice)", i, g.UniqueSuffix))

			return finish()
		}

		delete(want, g.UniqueSuffix)

		if g.Type != q.Type {
			fail("readback/type", fmt.Sprintf("operation for %s submitted as %s, read back as %s", g.UniqueSuffix, q.Type, g.Type))

			return finish()
		}

		if !jsonEqual(g.OperationRequest, q.OperationRequest) {
			fail("readback/request", fmt.Sprintf("operation for %s: read-back request differs from the submitted one:\n got  %s\n want %s", g.UniqueSuffix, g.OperationRequest, q.OperationRequest))

			return finish()
		}

		if r := typeRank[g.Type]; r < lastRank {
			fail("readback/order", fmt.Sprintf("operation %d of type %s follows a later type (order must be create, recover, update, deactivate)", i, g.Type))

			return finish()
		} else {
			lastRank = r
		}
	}

	Heartbeat()

	if m, err := tightReadBack(cas, files, t); err != nil {
		fail("readback/tight-limits", fmt.Sprintf("a batch of %d operations whose files are within the size limits (at the limit) does not read back: %v", n, err))

		return finish()
	} else if m >= 0 && m != n {
		fail("readback/tight-limits", fmt.Sprintf("a batch of %d operations read back as %d operations under exactly sufficient size limits", n, m))

		return finish()
	}

	Heartbeat()

	if len(info.OperationReferences) != n {
		fail("readback/references", fmt.Sprintf("%d operation references for %d included operations", len(info.OperationReferences), n))
	}

	k.Count("probe:readback-ok")
	k.Count(fmt.Sprintf("probe:large-batch-%d-digits", len(fmt.Sprint(n))))

	if prop == "C15" {
		t.TransactionNumber = 7
		t.EquivalentReferences = []string{"eref0-a", "eref0-b"}

		// the observer would hand the transaction to the processor once; after a failed attempt a redelivery may follow
		for attempt := 0; attempt < 2; attempt++ {
			before := len(store.Puts)
			_, perr := v.TxProcessor.Process(*t)

			Heartbeat()

			stored := store.Ops
			total := 0

			for _, l := range stored {
				total += len(l)
			}

			if perr != nil {
				if total != 0 {
					fail("store/partial-txn", fmt.Sprintf("processing a transaction of %d operations failed (%s), yet %d of its operations are in the operation store", n, simkit.FirstLine(perr.Error()), total))

					return finish()
				}

				k.Count("probe:failed-large-txn-left-nothing")

				continue
			}

			if len(store.Puts)-before != 1 {
				fail("store/several-writes", fmt.Sprintf("a transaction of %d operations was stored with %d separate writes", n, len(store.Puts)-before))

				return finish()
			}

			if total != n {
				fail("store/content", fmt.Sprintf("a transaction of %d operations for %d distinct DIDs left %d operations in the store", n, n, total))

				return finish()
			}

			for sfx, l := range stored {
				o := l[0]
				if len(l) != 1 || o.TransactionTime != t.TransactionTime || o.TransactionNumber != t.TransactionNumber || o.ProtocolVersion != t.ProtocolVersion ||
					o.CanonicalReference != t.CanonicalReference || fmt.Sprint(o.EquivalentReferences) != fmt.Sprint(t.EquivalentReferences) {
					fail("store/stamp", fmt.Sprintf("operation for %s stored %d time(s), stamped t=%d n=%d v=%d cref=%q eref=%v; the transaction is t=%d n=%d v=%d cref=%q eref=%v", sfx, len(l),
						o.TransactionTime, o.TransactionNumber, o.ProtocolVersion, o.CanonicalReference, o.EquivalentReferences,
						t.TransactionTime, t.TransactionNumber, t.ProtocolVersion, t.CanonicalReference, t.EquivalentReferences))

					return finish()
				}
			}

			k.Count("probe:large-txn-stored")

			break
		}
	}

	return finish()
}
