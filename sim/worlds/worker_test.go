package worlds

import "testing"

// TestWorker is the only entry point; it is driven by environment variables (see runner.go).
func TestWorker(t *testing.T) { Worker(t) }
