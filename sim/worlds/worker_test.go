package worlds

import "testing"

// TestWorker is the only entry point; it is driven by environment variables (see runner.go).
func TestWorker(t *testing.T) { Worker(t) }

// TestRaceAux is the auxiliary free-running stress (thorough tier of C16, built with -race).
func TestRaceAux(t *testing.T) { RaceAux(t) }
