package worlds

import (
	"encoding/json"
	"errors"
	"fmt"
	"math/rand/v2"
	"os"
	"runtime"
	"sync"
	"testing"
	"time"

	"github.com/trustbloc/sidetree-core-go/pkg/api/operation"
	"github.com/trustbloc/sidetree-core-go/pkg/api/protocol"
	"github.com/trustbloc/sidetree-core-go/pkg/api/txn"
	"github.com/trustbloc/sidetree-core-go/pkg/batch"
	"github.com/trustbloc/sidetree-core-go/pkg/batch/cutter"
	"github.com/trustbloc/sidetree-core-go/pkg/batch/opqueue"

	"verifsim/simenv"
	"verifsim/workload"
)

// RaceAux is the auxiliary, NON-replayable stress of world W (C16): the real writer, cutter,
// MemQueue and operation handler run with free-running goroutines, real millisecond tickers and
// random CAS/anchor failures under the Go race detector. It exists to test the one assumption the
// deterministic simulation makes – that code between two calls through harness-owned interfaces
// runs atomically (no data race inside MemQueue or the writer). It is judged by the race detector
// (which makes the test binary fail) and by the schedule-independent conservation oracle.
func RaceAux(t *testing.T) {
	if os.Getenv("VERIF_RACE_AUX") == "" {
		t.Skip("VERIF_RACE_AUX not set")
	}

	seed := uint64(envInt("VERIF_SEED", 1))
	budget := time.Duration(envInt("VERIF_BUDGET_S", 20)) * time.Second
	start := time.Now()
	iters, anchored := 0, 0

	for time.Since(start) < budget {
		n, err := raceIteration(seed + uint64(iters)*7919)
		if err != nil {
			out := map[string]interface{}{"iterations": iters, "violation": err.Error(), "seed": seed + uint64(iters)*7919}
			b, _ := json.Marshal(out)
			fmt.Println("RACE-AUX-RESULT " + string(b))
			t.Fatalf("conservation violated in free-running run: %v", err)
		}

		anchored += n
		iters++
	}

	b, _ := json.Marshal(map[string]interface{}{"iterations": iters, "operations_anchored": anchored, "violation": nil})
	fmt.Println("RACE-AUX-RESULT " + string(b))
}

type raceCAS struct {
	mu    sync.Mutex
	files map[string][]byte
	rng   *rand.Rand
	rate  int
	off   bool
}

func (c *raceCAS) Write(content []byte) (string, error) {
	c.mu.Lock()
	defer c.mu.Unlock()

	if !c.off && c.rng.IntN(1000) < c.rate {
		return "", errors.New("injected CAS write failure")
	}

	addr := simenv.Address(content)
	c.files[addr] = append([]byte(nil), content...)

	return addr, nil
}

func (c *raceCAS) Read(addr string) ([]byte, error) {
	c.mu.Lock()
	defer c.mu.Unlock()

	b, ok := c.files[addr]
	if !ok {
		return nil, errors.New("not found")
	}

	return b, nil
}

type raceLedger struct {
	mu       sync.Mutex
	rng      *rand.Rand
	rate     int
	off      bool
	anchored map[string]int // request key -> times anchored
	pending  [][]string     // included request keys of the batch being prepared (set by the handler hook)
	n        int
}

func (l *raceLedger) WriteAnchor(_ string, _ []*protocol.AnchorDocument, _ []*operation.Reference, _ uint64) error {
	l.mu.Lock()
	defer l.mu.Unlock()

	if !l.off && l.rng.IntN(1000) < l.rate {
		return errors.New("injected anchor failure")
	}

	if len(l.pending) > 0 {
		for _, k := range l.pending[len(l.pending)-1] {
			l.anchored[k]++
			l.n++
		}
	}

	return nil
}

func (l *raceLedger) Read(int) (bool, *txn.SidetreeTxn) { return false, nil }

type raceProto struct{ v *simenv.Version }

func (p raceProto) Current() (protocol.Version, error)   { return p.v, nil }
func (p raceProto) Get(uint64) (protocol.Version, error) { return p.v, nil }

type raceCtx struct {
	p protocol.Client
	l *raceLedger
	q cutter.OperationQueue
}

func (c raceCtx) Protocol() protocol.Client             { return c.p }
func (c raceCtx) Anchor() batch.AnchorWriter            { return c.l }
func (c raceCtx) OperationQueue() cutter.OperationQueue { return c.q }

func raceIteration(seed uint64) (int, error) {
	rng := rand.New(rand.NewPCG(seed, seed^0xabcdef))
	cas := &raceCAS{files: map[string][]byte{}, rng: rand.New(rand.NewPCG(seed, 1)), rate: []int{0, 50, 200}[rng.IntN(3)]}
	led := &raceLedger{rng: rand.New(rand.NewPCG(seed, 2)), rate: []int{0, 50, 200}[rng.IntN(3)], anchored: map[string]int{}}

	p := simenv.DefaultProtocol(0)
	p.MaxOperationCount = uint(1 + rng.IntN(5))
	v := simenv.NewVersion(p, &simenv.VersionDeps{CAS: cas})

	var expired sync.Map

	v.OnHandler = func(c *simenv.HandlerCall) {
		if c.Err != nil || c.Info == nil {
			return
		}

		skip := map[string]int{}
		for _, q := range c.Info.AdditionalOperations {
			skip[simenv.ReqKey(q.OperationRequest)]++
		}

		for _, q := range c.Info.ExpiredOperations {
			skip[simenv.ReqKey(q.OperationRequest)]++
			expired.Store(simenv.ReqKey(q.OperationRequest), true)
		}

		var incl []string

		for _, q := range c.Ops {
			k := simenv.ReqKey(q.OperationRequest)
			if skip[k] > 0 {
				skip[k]--

				continue
			}

			incl = append(incl, k)
		}

		led.mu.Lock()
		led.pending = append(led.pending, incl)
		led.mu.Unlock()
	}

	q := &opqueue.MemQueue{}

	w, err := batch.New("did:sim", raceCtx{p: raceProto{v}, l: led, q: q},
		batch.WithBatchTimeout(time.Duration(2+rng.IntN(4))*time.Millisecond), batch.WithMonitorInterval(time.Millisecond))
	if err != nil {
		return 0, err
	}

	// workload: real requests, several per DID
	var kg workload.KeyGen

	nClients := 2 + rng.IntN(5)
	perClient := 4 + rng.IntN(10)
	reqs := make([][]*operation.QueuedOperation, nClients)

	for c := 0; c < nClients; c++ {
		upd, rec := kg.New(workload.Ed25519, false), kg.New(workload.Ed25519, false)
		patches, _ := workload.ToPatches([]workload.PatchDesc{{Kind: workload.AddKey, IDs: []string{"k1"}, Mark: fmt.Sprintf("c%d", c)}})
		create, _ := workload.Build(&workload.OpSpec{Type: operation.TypeCreate, Hash: simenv.SHA2_256, NextUpdate: upd, NextRecovery: rec, Patches: patches, AnchorOrigin: "o"})

		parsed, err := v.Parser.ParseCreateOperation(create, true)
		if err != nil {
			return 0, err
		}

		sfx := parsed.UniqueSuffix
		reqs[c] = append(reqs[c], &operation.QueuedOperation{Type: operation.TypeCreate, OperationRequest: create, UniqueSuffix: sfx, Namespace: "did:sim"})

		for i := 1; i < perClient; i++ {
			next := kg.New(workload.Ed25519, false)
			pt, _ := workload.ToPatches([]workload.PatchDesc{{Kind: workload.AddSvc, IDs: []string{"s1"}, Mark: fmt.Sprintf("c%d-%d", c, i)}})
			req, _ := workload.Build(&workload.OpSpec{Type: operation.TypeUpdate, Suffix: sfx, Hash: simenv.SHA2_256, SignKey: upd, NextUpdate: next, Patches: pt})
			upd = next
			reqs[c] = append(reqs[c], &operation.QueuedOperation{Type: operation.TypeUpdate, OperationRequest: req, UniqueSuffix: sfx, Namespace: "did:sim"})
		}
	}

	w.Start()

	accepted := sync.Map{}

	var wg sync.WaitGroup

	for c := 0; c < nClients; c++ {
		wg.Add(1)

		go func(c int) {
			defer wg.Done()

			r := rand.New(rand.NewPCG(seed, uint64(100+c)))

			for _, op := range reqs[c] {
				if w.Add(op, 0) == nil {
					accepted.Store(simenv.ReqKey(op.OperationRequest), true)
				}

				switch r.IntN(4) {
				case 0:
					runtime.Gosched()
				case 1:
					time.Sleep(time.Duration(r.IntN(300)) * time.Microsecond)
				}
			}
		}(c)
	}

	wg.Wait()

	// faults stop; everything accepted must get anchored within a generous bound
	cas.mu.Lock()
	cas.off = true
	cas.mu.Unlock()
	led.mu.Lock()
	led.off = true
	led.mu.Unlock()

	total := 0

	accepted.Range(func(_, _ interface{}) bool { total++; return true })

	deadline := time.Now().Add(10 * time.Second)

	for {
		led.mu.Lock()
		done := 0

		for k := range led.anchored {
			if _, ok := accepted.Load(k); ok {
				done++
			}
		}
		led.mu.Unlock()

		if done >= total && q.Len() == 0 {
			break
		}

		if time.Now().After(deadline) {
			w.Stop()

			return 0, fmt.Errorf("seed %d: %d of %d accepted operations anchored 10 s after faults stopped (queue length %d)", seed, done, total, q.Len())
		}

		time.Sleep(2 * time.Millisecond)
	}

	// let a possible duplicate surface: a few more ticks
	time.Sleep(15 * time.Millisecond)
	w.Stop()

	led.mu.Lock()
	defer led.mu.Unlock()

	for k, n := range led.anchored {
		if n != 1 {
			return 0, fmt.Errorf("seed %d: operation %s anchored %d times", seed, k[:8], n)
		}

		if _, ok := accepted.Load(k); !ok {
			return 0, fmt.Errorf("seed %d: operation %s anchored but never accepted", seed, k[:8])
		}
	}

	return led.n, nil
}
