package worlds

import (
	"encoding/json"
	"errors"
	"fmt"
	"hash/fnv"
	"reflect"
	"sort"
	"strings"
	"time"

	"github.com/trustbloc/sidetree-core-go/pkg/api/operation"
	"github.com/trustbloc/sidetree-core-go/pkg/api/protocol"
	"github.com/trustbloc/sidetree-core-go/pkg/api/txn"
	"github.com/trustbloc/sidetree-core-go/pkg/batch"
	"github.com/trustbloc/sidetree-core-go/pkg/batch/cutter"
	"github.com/trustbloc/sidetree-core-go/pkg/batch/opqueue"
	"github.com/trustbloc/sidetree-core-go/pkg/canonicalizer"
	"github.com/trustbloc/sidetree-core-go/pkg/versions/1_0/operationparser"
	"github.com/trustbloc/sidetree-core-go/pkg/versions/1_0/txnprovider"

	"verifsim/refmodel"
	"verifsim/simenv"
	"verifsim/simkit"
	"verifsim/workload"
)

// World W: the real batch.Writer + cutter + MemQueue + OperationHandler + parser + gzip over a
// simulated CAS, ledger, protocol client and clock. Serves C16 (exactly-once batching) and C13
// (read-back of every anchored batch).

const ledgerBase = 1000

type wOp struct {
	ID      int
	Req     []byte
	Key     string
	Type    operation.Type
	Suffix  string
	From    int64
	Until   int64
	Origin  interface{}
	Version uint64
	State   int // 0 not submitted, 1 accepted, 2 refused
	Txns    []int
	Expired int
	Client  int
}

type wBatchCtx struct {
	ops      []*operation.QueuedOperation
	items    []simenv.QItem
	version  uint64
	failAt   int
	writeIdx int
	info     *protocol.AnchoringInfo
	time     int64
	files    [][]byte // what this batch wrote to CAS (compressed content)
}

type wWorld struct {
	k      *simkit.Kernel
	prop   string
	driver string
	start  time.Time

	maxOps        uint
	maxOpsBy      map[uint64]uint // per protocol version (genesis time)
	passMax       []uint          // MaxOperationCount of every version that was current at some seam call of the writer in this pass
	oddSuffixDone bool
	versions      []*simenv.Version
	proto         *simenv.ProtoClient
	cas           *simenv.CAS
	ledger        *simenv.Ledger
	q             *simenv.QueueProxy
	writer        *batch.Writer
	tv            *simenv.SimTimeValidator
	checker       map[uint64]*txnprovider.OperationProvider

	monCh, toCh chan time.Time
	pendingTick string
	passKind    string
	monPeriod   time.Duration
	toPeriod    time.Duration
	nextMon     time.Duration
	nextTo      time.Duration

	ops     []*wOp
	byKey   map[string]*wOp
	clients [][]*wOp
	done    []bool

	cur *wBatchCtx

	rateCAS, rateAnchor, rateCompress, rateQueue int
	faultsOff                                    bool

	ticks, clockMoves int
	stateSeq          uint64
	nontrivial        bool
	samples           []string
	matrix            map[string]int
}

type wContext struct{ w *wWorld }

func (c wContext) Protocol() protocol.Client             { return c.w.proto }
func (c wContext) Anchor() batch.AnchorWriter            { return c.w.ledger }
func (c wContext) OperationQueue() cutter.OperationQueue { return c.w.q }

func (w *wWorld) ledgerNow() uint64 {
	return ledgerBase + uint64(time.Since(w.start)/time.Second)
}

func (w *wWorld) fail(prop, oracle, detail string) {
	w.k.Fail(&simkit.Violation{Property: prop, Oracle: oracle, Detail: detail, Fingerprint: prop + "/" + oracle})
}

func runWorldW(rc *RunCtx, prop, driver string) *RunResult {
	k := rc.K
	k.PanicProp = prop
	k.Props = map[string]bool{prop: true}
	T := k.T

	simenv.ErrExpired = operationparser.ErrOperationExpired
	simenv.ErrEarly = operationparser.ErrOperationEarly

	w := &wWorld{k: k, prop: prop, driver: driver, start: time.Now(), byKey: map[string]*wOp{}, matrix: map[string]int{}, checker: map[uint64]*txnprovider.OperationProvider{}}

	// ---- swarm configuration
	w.maxOps = uint(T.Range(1, 5, "cfg.maxOps"))
	big := T.Draw(8, "cfg.big") == 0 // occasionally: large batches, many operations
	if big {
		w.maxOps = uint(6 + T.Draw(10, "cfg.maxOps.big"))
	}

	nVersions := 1 + T.Draw(3, "cfg.versions")
	genesisZero := T.Draw(2, "cfg.genesis0") == 0
	nClients := 1 + T.Draw(4, "cfg.clients")
	nDIDs := 1 + T.Draw(5, "cfg.dids")
	nOps := T.Range(2, 18, "cfg.ops")
	if big {
		nDIDs = 6 + T.Draw(10, "cfg.dids.big")
		nOps = 20 + T.Draw(30, "cfg.ops.big")
	}

	maxSteps := 60 + T.Draw(400, "cfg.steps")
	if big {
		maxSteps += 600
	}

	rates := []int{0, 0, 60, 150, 300}
	w.rateCAS = rates[T.Draw(len(rates), "cfg.rate.cas")]
	w.rateAnchor = rates[T.Draw(len(rates), "cfg.rate.anchor")]
	w.rateCompress = []int{0, 0, 0, 40}[T.Draw(4, "cfg.rate.compress")]
	w.rateQueue = []int{0, 0, 0, 100}[T.Draw(4, "cfg.rate.queue")]

	if rc.Opt["faultfree"] == "1" {
		w.rateCAS, w.rateAnchor, w.rateCompress, w.rateQueue = 0, 0, 0, 0
	}

	// ---- the simulated outside world
	w.cas = simenv.NewCAS(k, "cas")
	w.cas.WriteFault = func(_ int, content []byte) error {
		c := w.cur
		if c == nil || k.IsInline() {
			return nil
		}

		c.files = append(c.files, append([]byte(nil), content...))

		idx := c.writeIdx
		c.writeIdx++

		if !w.faultsOff && idx == c.failAt {
			k.Count("fault:cas.werr")
			w.matrix[fmt.Sprintf("size%d/write%d", len(c.ops), idx)]++

			return errors.New("injected CAS write failure")
		}

		return nil
	}

	w.ledger = simenv.NewLedger(k, "ledger", "did:sim", w.ledgerNow)
	w.ledger.AnchorFault = func(int) error {
		if !w.faultsOff && k.Fault("anchor.err", w.rateAnchor) {
			return errors.New("injected anchor write failure")
		}

		return nil
	}
	w.ledger.OnAnchor = w.onAnchor

	w.tv = &simenv.SimTimeValidator{Now: func() int64 { return int64(w.ledgerNow()) }}

	comp := simenv.NewCompressionProxy(func(op string) error {
		if op == "compress" && !w.faultsOff && k.Fault("compress.err", w.rateCompress) {
			return errors.New("injected compression failure")
		}

		return nil
	})

	var genesis []uint64

	w.maxOpsBy = map[uint64]uint{}
	variedMax := nVersions > 1 && !big && T.Draw(3, "cfg.maxOps.varied") == 0

	for i := 0; i < nVersions; i++ {
		g := uint64(0)

		switch {
		case i == 0 && genesisZero:
			g = 0
		case i == 0:
			g = 500
		default:
			g = genesis[i-1] + uint64(5+T.Draw(40, "cfg.genesis"))
			if g < ledgerBase {
				g = ledgerBase + uint64(3+T.Draw(30, "cfg.genesis"))
			}
		}

		genesis = append(genesis, g)

		p := simenv.DefaultProtocol(g)
		p.MaxOperationCount = w.maxOps

		// a later version may change the maximum batch size
		if i > 0 && variedMax {
			p.MaxOperationCount = uint(T.Range(1, 6, "cfg.maxOps.version"))
		}

		w.maxOpsBy[g] = p.MaxOperationCount
		p.MaxOperationTimeDelta = uint64(20 + 10*i)

		v := simenv.NewVersion(p, &simenv.VersionDeps{CAS: w.cas, Compression: comp, TimeValidator: w.tv})
		v.OnBefore = w.beforeHandler
		v.OnHandler = w.afterHandler
		w.versions = append(w.versions, v)

		// independent reader for the read-back oracle: own parser (no time validator), same CAS
		cp := simenv.DefaultProtocol(g)
		w.checker[g] = txnprovider.NewOperationProvider(cp, operationparser.New(cp), w.cas, simenv.NewCompressionProxy(nil))
	}

	w.proto = simenv.NewProtoClient(k, w.ledgerNow, w.versions...)
	w.proto.YieldLabel = "proto"
	w.proto.OnCurrent = func(v *simenv.Version) {
		if k.Cur() == "W" {
			w.passMax = append(w.passMax, v.P.MaxOperationCount)
		}
	}

	w.q = &simenv.QueueProxy{K: k, Label: "q", Real: &opqueue.MemQueue{}, Prop: "C16"}
	w.q.AddFault = func() error {
		if k.Cur() != "W" && !w.faultsOff && k.Fault("queue.adderr", w.rateQueue) {
			return errors.New("injected queue failure")
		}

		return nil
	}
	w.q.OnRemove = w.onRemove
	w.q.OnSeam = func(string) {
		if k.Cur() == "W" {
			w.passMax = append(w.passMax, w.proto.CurrentVersion().P.MaxOperationCount)
		}
	}
	w.q.OnNack = func(items []simenv.QItem) {
		if k.ParkedAt(".Add", "W") {
			k.Count("probe:nack-with-add-in-flight")
		}
	}
	w.q.OnAdd = func(simenv.QItem) {
		if w.q.HasInFl && k.Cur() != "W" {
			k.Count("probe:add-while-batch-in-flight")
			w.nontrivial = true
		}
	}

	// ---- workload (built up front so request bytes do not depend on the schedule)
	w.buildOps(nDIDs, nOps, nClients)

	// ---- the writer
	w.monPeriod = time.Duration(100+T.Draw(900, "cfg.monitor")) * time.Millisecond
	w.toPeriod = time.Duration(500+T.Draw(3000, "cfg.timeout"))*time.Millisecond + time.Nanosecond

	var err error

	w.writer, err = batch.New("did:sim", wContext{w}, batch.WithBatchTimeout(w.toPeriod), batch.WithMonitorInterval(w.monPeriod))
	if err != nil {
		panic(err)
	}

	if driver == "M1" {
		w.monCh = make(chan time.Time, 1)
		w.toCh = make(chan time.Time, 1)
		w.writer.VerifSetTickers(w.monCh, w.toCh)
	}

	w.nextMon, w.nextTo = w.monPeriod, w.toPeriod

	for i := range w.clients {
		i := i
		k.Go(fmt.Sprintf("c%d", i), func() { w.clientTask(i) })
	}

	w.passKind = "startup"
	k.Cleanup = func() { w.writer.Stop() }
	k.SetCur("W")
	w.writer.Start()

	// ---- main phase: the tape decides everything
	k.Run(maxSteps, w.env, w.check)

	// ---- bounded liveness once faults stop, then final accounting
	if k.Viol == nil {
		w.livenessPhase()
	}

	if k.Viol == nil {
		k.Inline(w.finalAccounting)
	}

	simSeconds := time.Since(w.start).Seconds()

	k.Drain(func() { w.writer.Stop() })

	res := &RunResult{
		Viol: k.Viol, SimSeconds: simSeconds, Nontrivial: w.nontrivial, StateHash: w.stateSeq,
		Real:  []string{"batch.Writer", "cutter.BatchCutter", "opqueue.MemQueue", "txnprovider.OperationHandler", "txnprovider.OperationProvider", "operationparser", "compression(gzip)", "client request builders", "edsigner"},
		Stub:  []string{"CAS", "ledger/AnchorWriter", "protocol.Client", "clock", "TimeValidator"},
		Extra: map[string]float64{},
	}

	for name, n := range w.matrix {
		res.Extra["faultpos:"+name] = float64(n)
	}

	if len(w.samples) > 0 {
		res.Sample = map[string]interface{}{"driver": driver, "maxOps": w.maxOps, "versions": genesis, "ops": len(w.ops), "events": w.samples}
	}

	return res
}

func (w *wWorld) buildOps(nDIDs, nOps, nClients int) {
	T := w.k.T
	kg := &workload.KeyGen{}

	type did struct {
		suffix   string
		upd, rec *workload.Key
		twin     *did // another DID of the same controller, created under the same keys
	}

	var mirror *workload.OpSpec // an update to be repeated, unchanged but for the DID, on the twin
	var mirrorFor *did

	var dids []*did

	w.clients = make([][]*wOp, nClients)
	w.done = make([]bool, nClients)

	mark := 0

	for len(w.ops) < nOps {
		var spec workload.OpSpec

		spec.Hash = simenv.SHA2_256
		mark++

		var d *did

		if !w.oddSuffixDone && len(dids) > 0 && T.Draw(12, "op.longsuffix") == 0 {
			// a request for a DID suffix that is longer than any real one (longer than MaxOperationHashLength): it goes into
			// the workload only if the intake parser accepts it - whatever intake accepts must read back
			w.oddSuffixDone = true
			k1, k2 := kg.New(workload.Ed25519, false), kg.New(workload.Ed25519, false)
			pt, _ := workload.ToPatches([]workload.PatchDesc{{Kind: workload.AddSvc, IDs: []string{"s1"}, Mark: fmt.Sprintf("m%d", mark)}})
			long := strings.Repeat("A", int(w.versions[0].P.MaxOperationHashLength)+1)

			if req, err := workload.Build(&workload.OpSpec{Type: operation.TypeUpdate, Suffix: long, Hash: simenv.SHA2_256, SignKey: k1, NextUpdate: k2, Patches: pt}); err == nil {
				if _, perr := w.versions[0].Parser.Parse("did:sim", req); perr == nil {
					op := &wOp{ID: len(w.ops), Req: req, Key: simenv.ReqKey(req), Type: operation.TypeUpdate, Suffix: long, Client: T.Draw(nClients, "op.client")}
					w.ops = append(w.ops, op)
					w.byKey[op.Key] = op
					w.clients[op.Client] = append(w.clients[op.Client], op)
					w.k.Count("probe:request-with-over-long-did-suffix-accepted-by-intake")

					continue
				}
			}
		}

		if mirror != nil {
			// the controller applies the same change to the twin: same key, same patches, same next key - with deterministic
			// (EdDSA) signatures the two requests carry byte-identical signed data and differ in the DID suffix only
			d = mirrorFor
			spec = *mirror
			spec.Suffix = d.suffix
			d.upd = spec.NextUpdate
			mirror, mirrorFor = nil, nil
			w.k.Count("probe:same-update-on-twin-did")
		} else if len(dids) < nDIDs && (len(dids) == 0 || T.Draw(3, "op.newdid") == 0) {
			d = &did{upd: kg.New(workload.Ed25519, mark%4 == 0), rec: kg.New(workload.Ed25519, mark%5 == 0)}

			// a twin: a second DID of the same controller under the same (current) keys
			if len(dids) > 0 && T.Draw(4, "op.twin") == 0 {
				t := dids[T.Draw(len(dids), "op.twin.of")]
				if t.twin == nil {
					d.upd, d.rec, d.twin, t.twin = t.upd, t.rec, t, d
				}
			}

			// one controller may hold several DIDs under one recovery key: their recovers / deactivates reveal the same key
			if len(dids) > 0 && T.Draw(3, "op.sharedrec") == 0 {
				d.rec = dids[T.Draw(len(dids), "op.sharedrec.did")].rec
				w.k.Count("probe:recovery-key-shared-between-dids")
			}
			spec.Type = operation.TypeCreate
			spec.NextUpdate, spec.NextRecovery = d.upd, d.rec
			spec.AnchorOrigin = originValue(mark)
			spec.SuffixType = []string{"", "", "ipdb", "vdr"}[mark%4]
			spec.Patches, _ = workload.ToPatches([]workload.PatchDesc{{Kind: workload.AddKey, IDs: []string{"k1"}, Mark: fmt.Sprintf("m%d", mark)}})
			dids = append(dids, d)
		} else {
			d = dids[T.Draw(len(dids), "op.did")]
			spec.Suffix = d.suffix

			switch t := T.Draw(10, "op.type"); {
			case t < 6:
				spec.Type = operation.TypeUpdate
				spec.SignKey = d.upd
				spec.NextUpdate = kg.New(workload.Ed25519, false)

				if d.twin != nil && d.twin.upd == d.upd && d.twin.suffix != "" {
					mirrorFor = d.twin
				}

				d.upd = spec.NextUpdate
				pds := []workload.PatchDesc{{Kind: workload.AddSvc, IDs: []string{"s1"}, Mark: fmt.Sprintf("m%d", mark)}}

				// several patches of different kinds in one delta, among them URIs that a URL library would re-spell
				if mark%3 == 0 {
					pds = append(pds, workload.PatchDesc{Kind: workload.AddAKA, IDs: []string{"https://a.example/\u00fc?x=1&y=<2>", "HTTPS://A.example/Case#"}},
						workload.PatchDesc{Kind: workload.RemoveKey, IDs: []string{"k9"}})
				}

				// now and then a delta as large as intake admits that consists of characters some JSON writers spell with six
				// bytes each (the batch files must still be within what count x MaxDeltaSize implies)
				if T.Draw(8, "op.heavy-delta") == 0 {
					max := int(w.proto.CurrentVersion().P.MaxDeltaSize)
					pds = []workload.PatchDesc{{Kind: workload.AddNote, Mark: strings.Repeat("<&>", (max-260)/3)}}
					w.k.Count("probe:delta-near-maximum-size-full-of-html-characters")
				}

				spec.Patches, _ = workload.ToPatches(pds)
			case t < 8:
				spec.Type = operation.TypeRecover
				spec.SignKey = d.rec
				spec.NextUpdate = kg.New(workload.Ed25519, false)
				spec.NextRecovery = kg.New(workload.Ed25519, false)
				d.upd, d.rec = spec.NextUpdate, spec.NextRecovery
				spec.AnchorOrigin = originValue(mark)
				spec.Patches, _ = workload.ToPatches([]workload.PatchDesc{{Kind: workload.AddKey, IDs: []string{"k2"}, Mark: fmt.Sprintf("m%d", mark)}})
			default:
				spec.Type = operation.TypeDeactivate
				spec.SignKey = d.rec
				// a fresh key afterwards, so that two deactivates are never byte-identical requests
				d.rec = kg.New(workload.Ed25519, false)
			}

			if T.Draw(4, "op.windowed") == 0 {
				spec.From = int64(ledgerBase - T.Draw(20, "op.from"))
				if T.Draw(2, "op.until") == 1 {
					spec.Until = spec.From + int64(1+T.Draw(40, "op.untilv"))
				}
			}
		}

		if mirrorFor != nil && mirror == nil && spec.Type == operation.TypeUpdate && d != mirrorFor {
			c := spec
			mirror = &c
		} else if mirror == nil {
			mirrorFor = nil
		}

		req, err := workload.Build(&spec)
		if err != nil {
			panic(err)
		}

		op := &wOp{ID: len(w.ops), Req: req, Key: simenv.ReqKey(req), Type: spec.Type, From: spec.From, Until: spec.Until, Origin: spec.AnchorOrigin}

		if spec.Type == operation.TypeCreate {
			parsed, err := w.versions[0].Parser.ParseCreateOperation(req, true)
			if err != nil {
				panic(err)
			}

			d.suffix = parsed.UniqueSuffix
		}

		if w.byKey[op.Key] != nil {
			panic("workload generated two identical requests")
		}

		op.Suffix = d.suffix
		op.Client = T.Draw(nClients, "op.client")
		w.ops = append(w.ops, op)
		w.byKey[op.Key] = op
		w.clients[op.Client] = append(w.clients[op.Client], op)
	}
}

func (w *wWorld) clientTask(i int) {
	for _, op := range w.clients[i] {
		if w.k.Draining() {
			break
		}

		v := w.proto.CurrentVersion().P.GenesisTime
		op.Version = v

		err := w.writer.Add(&operation.QueuedOperation{
			Type: op.Type, OperationRequest: op.Req, UniqueSuffix: op.Suffix, Namespace: "did:sim", AnchorOrigin: op.Origin,
		}, v)
		if err != nil {
			op.State = 2
			w.k.Tr.Logf("  c%d Add op%d refused: %v", i, op.ID, err)
		} else {
			op.State = 1
			w.k.Tr.Logf("  c%d Add op%d (%s %s) accepted v=%d", i, op.ID, op.Type, short8(op.Suffix), v)
		}
	}

	w.done[i] = true
}

// originValue: anchor origins are mostly strings, sometimes objects, arrays, numbers, booleans or absent (any JSON value is allowed).
func originValue(n int) interface{} {
	switch n % 8 {
	case 1:
		return map[string]interface{}{"domain": fmt.Sprintf("origin-%d", n), "tags": []interface{}{"a", "b"}}
	case 2:
		return []interface{}{fmt.Sprintf("origin-%d", n), "second"}
	case 4:
		return nil // the anchor origin is optional
	case 5:
		return float64(n)
	case 6:
		return n%16 == 6 // true or false
	default:
		return fmt.Sprintf("origin-%d", n)
	}
}

func short8(s string) string {
	if len(s) > 8 {
		return s[len(s)-8:]
	}

	return s
}

// env lists what the outside world may do now.
func (w *wWorld) env() []simkit.Action {
	var a []simkit.Action

	k := w.k

	if w.driver == "M1" {
		if len(w.monCh) == 0 && len(w.toCh) == 0 && w.pendingTick == "" && w.ticks < 400 {
			a = append(a,
				simkit.Action{Label: "tick timeout", Do: func() { w.sendTick("timeout") }},
				simkit.Action{Label: "tick monitor", Do: func() { w.sendTick("monitor") }})
		}

		if w.clockMoves < 60 {
			a = append(a, simkit.Action{Label: "clock", Do: func() {
				ds := []time.Duration{100 * time.Millisecond, time.Second, 3 * time.Second, 7 * time.Second, 25 * time.Second}
				d := ds[k.T.Draw(len(ds), "clock.jump")]
				w.clockMoves++
				k.Tr.Logf("  clock +%v", d)
				time.Sleep(d)
			}})
		}
	} else if !k.IsParked("W") && w.ticks < 400 {
		// M2: real tickers. Time moves only while the writer loop is idle, and only to the next tick instant.
		a = append(a, simkit.Action{Label: "advance to next tick", Do: w.advanceToTick})
	}

	return a
}

func (w *wWorld) sendTick(kind string) {
	w.ticks++
	w.pendingTick = kind
	w.k.SetCur("W")

	if kind == "timeout" {
		w.toCh <- time.Time{}
	} else {
		w.monCh <- time.Time{}
	}
}

func (w *wWorld) advanceToTick() {
	el := time.Since(w.start)
	kind := "monitor"
	at := w.nextMon

	if w.nextTo < w.nextMon {
		kind, at = "timeout", w.nextTo
	}

	if kind == "monitor" {
		w.nextMon += w.monPeriod
	} else {
		w.nextTo += w.toPeriod
	}

	w.ticks++
	w.passKind = kind
	w.passMax = nil
	w.k.SetCur("W")
	w.k.Tr.Logf("  clock -> %v (%s tick)", at, kind)

	if at > el {
		time.Sleep(at - el)
	}
}

// check runs after every scheduler step.
func (w *wWorld) check() {
	if w.driver == "M1" && w.pendingTick != "" {
		ch := w.monCh
		if w.pendingTick == "timeout" {
			ch = w.toCh
		}

		if len(ch) == 0 {
			w.passKind = w.pendingTick
			w.passMax = nil
			w.pendingTick = ""
		}
	}

	// abstract state: queue content classes, in-flight flag, per-op status
	h := fnv.New64a()
	fmt.Fprintf(h, "%d|%v|", len(w.q.Model), w.q.HasInFl)

	for _, op := range w.ops {
		fmt.Fprintf(h, "%d%d%d,", op.State, len(op.Txns), op.Expired)
	}

	w.stateSeq = w.stateSeq*1099511628211 ^ h.Sum64()
}

// onRemove: per-cut oracles (size, single version, under-full rule).
func (w *wWorld) onRemove(items []simenv.QItem, requested uint, before []simenv.QItem) {
	k := w.k

	if len(items) == 0 {
		return
	}

	// "the protocol's maximum": versions may differ in it, and the property does not say whether the version current at
	// the cut or the version the operations were queued under counts - a cut is too large only if it exceeds both, and
	// under-full only if it is below both.
	verMax := w.maxOpsBy[items[0].Version]
	hi, lo := verMax, verMax

	for _, m := range w.passMax {
		if m > hi {
			hi = m
		}

		if m < lo {
			lo = m
		}
	}

	if hi != lo {
		k.Count("probe:cut-with-two-maxima-in-play")
	}

	if uint(len(items)) > hi {
		w.fail("C16", "cut/too-large", fmt.Sprintf("cut of %d operations exceeds MaxOperationCount (%d for the version the operations were queued under, %v for the version(s) current during this pass)", len(items), verMax, w.passMax))
	}

	for _, it := range items[1:] {
		if it.Version != items[0].Version {
			w.fail("C16", "cut/mixed-versions", fmt.Sprintf("one cut holds operations queued under protocol versions %d and %d", items[0].Version, it.Version))

			break
		}
	}

	if uint(len(items)) < lo {
		boundary := len(before) > len(items) && before[len(items)].Version != items[0].Version
		forced := w.passKind == "timeout" || w.passKind == "startup"

		switch {
		case boundary:
			k.Count("probe:underfull-at-version-boundary")
			w.nontrivial = true
		case forced:
			k.Count("probe:underfull-forced")
		default:
			w.fail("C16", "cut/underfull", fmt.Sprintf("cut of %d < max %d on a %s pass with no version boundary (queue had %d)", len(items), lo, w.passKind, len(before)))
		}
	}
}

func (w *wWorld) beforeHandler(ops []*operation.QueuedOperation) {
	k := w.k
	c := &wBatchCtx{ops: ops, failAt: -1, time: int64(w.ledgerNow())}

	if !w.faultsOff && !k.IsInline() && k.Fault("cas.werr.batch", w.rateCAS) {
		c.failAt = k.Draw(5, "cas.failpos")
	}

	w.cur = c
}

func (w *wWorld) afterHandler(c *simenv.HandlerCall) {
	if w.cur == nil {
		return
	}

	w.cur.info = c.Info

	if c.Err != nil {
		w.k.Tr.Logf("  W handler error: %v", c.Err)

		if w.q.HasInFl {
			w.nontrivial = true
		}
	}
}

// onAnchor: a batch was successfully anchored. Account for every cut operation and read the
// transaction back through an independent provider instance.
func (w *wWorld) onAnchor(t *txn.SidetreeTxn, refs []*operation.Reference) {
	k := w.k
	c := w.cur

	if c == nil || c.info == nil {
		w.fail("HARNESS", "harness/anchor-without-batch", "WriteAnchor without a preceding PrepareTxnFiles")

		return
	}

	txnIdx := len(w.ledger.Txns) - 1

	// --- independent expectation of the partition (property text, not handler output)
	seen := map[string]bool{}

	var wantIncl, wantDef, wantExp []*wOp

	for _, qo := range c.ops {
		op := w.byKey[simenv.ReqKey(qo.OperationRequest)]
		if op == nil {
			w.fail("HARNESS", "harness/unknown-op", "cut contains an operation nobody submitted")

			return
		}

		until := op.Until
		if op.From != 0 && until == 0 {
			v, _ := w.proto.Get(op.Version)
			until = refmodel.SatAdd(op.From, refmodel.DeltaOf(v.Protocol().MaxOperationTimeDelta))
		}

		expired := (op.From != 0 || op.Until != 0) && until < c.time

		switch {
		case expired:
			wantExp = append(wantExp, op)
		case seen[op.Suffix]:
			wantDef = append(wantDef, op)
		default:
			seen[op.Suffix] = true
			wantIncl = append(wantIncl, op)
		}
	}

	if len(wantExp) > 0 {
		k.Count("probe:expired-in-batch")
		w.nontrivial = true
	}

	if len(wantDef) > 0 {
		k.Count("probe:deferred-op")
		w.nontrivial = true
	}

	gotExp := w.opsOf(c.info.ExpiredOperations)
	gotDef := w.opsOf(c.info.AdditionalOperations)

	// C16 accounting uses what the handler says it did; C13 compares that with the independent expectation.
	exp, def := map[*wOp]bool{}, map[*wOp]bool{}
	for _, op := range gotExp {
		exp[op] = true
		op.Expired++
	}

	for _, op := range gotDef {
		def[op] = true
	}

	var incl []*wOp

	for _, qo := range c.ops {
		op := w.byKey[simenv.ReqKey(qo.OperationRequest)]
		if !exp[op] && !def[op] {
			incl = append(incl, op)
			op.Txns = append(op.Txns, txnIdx)

			if len(op.Txns) > 1 {
				w.fail("C16", "conservation/duplicate-anchor", fmt.Sprintf("op%d anchored in transactions %v", op.ID, op.Txns))
			}
		}
	}

	if len(w.samples) < 12 {
		w.samples = append(w.samples, fmt.Sprintf("txn%d t=%d v=%d cut=%s included=%s deferred=%s expired=%s", txnIdx, t.TransactionTime, t.ProtocolVersion,
			idsOf(w.opsOfQ(c.ops)), idsOf(incl), idsOf(gotDef), idsOf(gotExp)))
	}

	// "anchored" means readable from what was anchored: the operations the writer counts as batched must be
	// exactly the ones an independent reader gets out of the anchor string and the CAS files
	if len(incl) > 0 {
		if got, err := w.checker[t.ProtocolVersion].GetTxnOperations(t); err != nil {
			w.fail("C16", "conservation/anchored-batch-unreadable", fmt.Sprintf("txn%d was anchored and acknowledged with operations %s, but it cannot be read back: %v", txnIdx, idsOf(incl), err))
		} else {
			have := map[string]bool{}
			for _, g := range got {
				have[simenv.ReqKey(g.OperationRequest)] = true
			}

			for _, op := range incl {
				if !have[op.Key] {
					w.fail("C16", "conservation/not-in-anchored-files", fmt.Sprintf("op%d is accounted as anchored in txn%d but is not among the %d operations readable from its files", op.ID, txnIdx, len(got)))

					break
				}
			}
		}
	}

	// the version label handed to the ledger must be the version the operations were queued under
	for _, qo := range c.ops {
		op := w.byKey[simenv.ReqKey(qo.OperationRequest)]
		if op.Version != t.ProtocolVersion {
			w.fail("C16", "cut/wrong-version-label", fmt.Sprintf("op%d queued under version %d anchored in a batch labelled %d", op.ID, op.Version, t.ProtocolVersion))

			break
		}
	}

	// ---- C13: partition and read-back
	if !sameOps(gotExp, wantExp) || !sameOps(gotDef, wantDef) {
		w.fail("C13", "partition", fmt.Sprintf("cut %s: handler reports deferred=%s expired=%s, expected deferred=%s expired=%s (first op per suffix included, later ones deferred, out-of-window ones expired)",
			idsOf(w.opsOfQ(c.ops)), idsOf(gotDef), idsOf(gotExp), idsOf(wantDef), idsOf(wantExp)))
	}

	if len(wantIncl) == 0 {
		k.Count("probe:all-expired-batch")

		return
	}

	w.readBack(t, refs, wantIncl)
}

func (w *wWorld) opsOf(qs []*operation.QueuedOperation) []*wOp { return w.opsOfQ(qs) }

func (w *wWorld) opsOfQ(qs []*operation.QueuedOperation) []*wOp {
	out := make([]*wOp, 0, len(qs))
	for _, q := range qs {
		out = append(out, w.byKey[simenv.ReqKey(q.OperationRequest)])
	}

	return out
}

func idsOf(ops []*wOp) string {
	s := "["

	for i, op := range ops {
		if i > 0 {
			s += " "
		}

		if op == nil {
			s += "?"
		} else {
			s += fmt.Sprintf("op%d", op.ID)
		}
	}

	return s + "]"
}

func sameOps(a, b []*wOp) bool {
	if len(a) != len(b) {
		return false
	}

	x := map[*wOp]int{}
	for _, o := range a {
		x[o]++
	}

	for _, o := range b {
		x[o]--
	}

	for _, n := range x {
		if n != 0 {
			return false
		}
	}

	return true
}

var typeRank = map[operation.Type]int{operation.TypeCreate: 0, operation.TypeRecover: 1, operation.TypeUpdate: 2, operation.TypeDeactivate: 3}

// readBack is the C13 oracle: an independent provider must read exactly the included operations.
func (w *wWorld) readBack(t *txn.SidetreeTxn, refs []*operation.Reference, want []*wOp) {
	ad, err := txnprovider.ParseAnchorData(t.AnchorString)
	if err != nil {
		w.fail("C13", "readback/anchor-string", fmt.Sprintf("anchor string %q of a batch with %d included operations does not parse: %v", t.AnchorString, len(want), err))

		return
	}

	got, err := w.checker[t.ProtocolVersion].GetTxnOperations(t)
	if err != nil {
		w.fail("C13", "readback/error", fmt.Sprintf("reading back txn with %d included operations failed: %v", len(want), err))

		return
	}

	if ad.NumberOfOperations != len(got) || len(got) != len(want) {
		w.fail("C13", "readback/count", fmt.Sprintf("anchor string says %d, read back %d, expected %d operations", ad.NumberOfOperations, len(got), len(want)))

		return
	}

	bySuffix := map[string]*wOp{}
	for _, op := range want {
		bySuffix[op.Suffix] = op
	}

	lastRank := -1

	for i, g := range got {
		op := bySuffix[g.UniqueSuffix]
		if op == nil {
			w.fail("C13", "readback/suffix", fmt.Sprintf("read-back operation %d has suffix %s which is not in the batch (or twice)", i, g.UniqueSuffix))

			return
		}

		delete(bySuffix, g.UniqueSuffix)

		if g.Type != op.Type {
			w.fail("C13", "readback/type", fmt.Sprintf("op%d submitted as %s, read back as %s", op.ID, op.Type, g.Type))

			return
		}

		if !jsonEqual(g.OperationRequest, op.Req) {
			w.fail("C13", "readback/request", fmt.Sprintf("op%d: read-back request differs from the submitted one:\n got  %s\n want %s", op.ID, g.OperationRequest, op.Req))

			return
		}

		if (op.Type == operation.TypeCreate || op.Type == operation.TypeRecover) && !reflect.DeepEqual(g.AnchorOrigin, op.Origin) {
			w.fail("C13", "readback/anchor-origin", fmt.Sprintf("op%d: anchor origin %v read back as %v", op.ID, op.Origin, g.AnchorOrigin))

			return
		}

		r := typeRank[g.Type]
		if r < lastRank {
			w.fail("C13", "readback/order", fmt.Sprintf("operation %d of type %s follows a later type (order must be create, recover, update, deactivate)", i, g.Type))

			return
		}

		lastRank = r
	}

	// the same files must also be readable by a node whose size limits are exactly as tight as these files allow: every
	// limit equal to the largest compressed file, the decompression factor the smallest that admits the largest
	// decompressed file (within the limits is within the limits)
	if n, err := tightReadBack(w.cas, w.cur.files, t); err != nil {
		w.fail("C13", "readback/tight-limits", fmt.Sprintf("a batch of %d operations whose files are within the size limits (at the limit) does not read back: %v", len(want), err))

		return
	} else if n >= 0 && n != len(want) {
		w.fail("C13", "readback/tight-limits", fmt.Sprintf("a batch of %d operations read back as %d operations under exactly sufficient size limits", len(want), n))

		return
	}

	// ... and by a node whose chunk-file limit is what intake's own arithmetic requires: n deltas of at most MaxDeltaSize
	// canonical bytes each (the size intake measures) need no more than n*(MaxDeltaSize+1)+128 bytes (the slack covers the JSON frame and the fixed cost of a compressed stream), compressed or not;
	// the decompression factor stays what the protocol version says
	reqs := make([][]byte, len(want))
	for i, op := range want {
		reqs[i] = op.Req
	}

	for _, v := range w.versions {
		if v.P.GenesisTime == t.ProtocolVersion {
			if n, err := arithReadBack(w.cas, v.P, reqs, t); err != nil {
				w.fail("C13", "readback/arithmetic-limits", fmt.Sprintf("a batch of %d operations, each with a delta within MaxDeltaSize, does not read back under a chunk-file limit of count x (MaxDeltaSize+1)+128 bytes: %v", len(want), err))

				return
			} else if n >= 0 && n != len(want) {
				w.fail("C13", "readback/arithmetic-limits", fmt.Sprintf("a batch of %d operations read back as %d operations under a chunk-file limit of count x (MaxDeltaSize+1)+128 bytes", len(want), n))

				return
			}
		}
	}

	// the references handed to the anchor writer name the same suffixes
	if len(refs) != len(want) {
		w.fail("C13", "readback/references", fmt.Sprintf("%d operation references for %d included operations", len(refs), len(want)))
	}

	w.k.Count("probe:readback-ok")
}

// tightReadBack reads the transaction through a fresh provider whose per-type size limits all equal the largest
// compressed file of the batch and whose decompression factor is the smallest that admits every file. Returns -1
// when the batch's files are not known.
func tightReadBack(cas *simenv.CAS, files [][]byte, t *txn.SidetreeTxn) (int, error) {
	if len(files) == 0 {
		return -1, nil
	}

	comp := simenv.NewCompressionProxy(nil)
	limit, factor := uint(1), uint(1)

	for _, f := range files {
		if uint(len(f)) > limit {
			limit = uint(len(f))
		}
	}

	for _, f := range files {
		d, err := comp.Decompress("GZIP", f)
		if err != nil {
			return -1, nil
		}

		if need := (uint(len(d)) + limit - 1) / limit; need > factor {
			factor = need
		}
	}

	p := simenv.DefaultProtocol(t.ProtocolVersion)
	p.MaxOperationCount = 1 << 20
	p.MaxChunkFileSize, p.MaxProvisionalIndexFileSize, p.MaxCoreIndexFileSize, p.MaxProofFileSize = limit, limit, limit, limit
	p.MaxMemoryDecompressionFactor = factor

	got, err := txnprovider.NewOperationProvider(p, operationparser.New(p), cas, comp).GetTxnOperations(t)
	if err != nil {
		return 0, fmt.Errorf("limits %d bytes x factor %d: %w", limit, factor, err)
	}

	return len(got), nil
}

// arithReadBack reads the transaction through a fresh provider with the version's own parameters except that the
// chunk-file limit is derived from the number of operations and MaxDeltaSize (other files: generous). Returns -1 when
// some delta of the batch is larger than MaxDeltaSize in canonical form (the premise does not hold).
func arithReadBack(cas *simenv.CAS, p protocol.Protocol, reqs [][]byte, t *txn.SidetreeTxn) (int, error) {
	for _, r := range reqs {
		var m struct {
			Delta map[string]interface{} `json:"delta"`
		}

		if json.Unmarshal(r, &m) != nil {
			return -1, nil
		}

		if m.Delta != nil {
			if b, err := canonicalizer.MarshalCanonical(m.Delta); err != nil || uint(len(b)) > p.MaxDeltaSize {
				return -1, nil
			}
		}
	}

	p.MaxOperationCount = 1 << 20
	p.MaxChunkFileSize = uint(len(reqs))*(p.MaxDeltaSize+1) + 128
	p.MaxProvisionalIndexFileSize, p.MaxCoreIndexFileSize, p.MaxProofFileSize = 1<<26, 1<<26, 1<<26

	got, err := txnprovider.NewOperationProvider(p, operationparser.New(p), cas, simenv.NewCompressionProxy(nil)).GetTxnOperations(t)
	if err != nil {
		return 0, fmt.Errorf("chunk-file limit %d bytes x factor %d: %w", p.MaxChunkFileSize, p.MaxMemoryDecompressionFactor, err)
	}

	return len(got), nil
}

func jsonEqual(a, b []byte) bool {
	var x, y interface{}
	if json.Unmarshal(a, &x) != nil || json.Unmarshal(b, &y) != nil {
		return false
	}

	return reflect.DeepEqual(x, y)
}

// livenessPhase: faults stop; tasks are scheduled fairly; after a bounded number of timeout
// ticks every accepted operation must be anchored or expired.
func (w *wWorld) livenessPhase() {
	k := w.k
	w.faultsOff = true
	k.Tr.Logf("--- faults stop; fair scheduling")

	remaining := len(w.ops)
	bound := remaining + 3

	for round := 0; round <= bound; round++ {
		if !k.Quiesce(20000, w.check) {
			if k.Viol == nil {
				w.fail("C16", "liveness/no-quiescence", "tasks still running after 20000 fair steps without faults")
			}

			return
		}

		allDone := true
		for _, d := range w.done {
			allDone = allDone && d
		}

		if allDone && len(w.q.Model) == 0 && !w.q.HasInFl && w.pendingTick == "" {
			k.Tr.Logf("--- drained after %d forced passes", round)

			return
		}

		if round == bound {
			break
		}

		if w.driver == "M1" {
			k.Tr.Logf("#%d env tick timeout (fair)", k.Steps)
			w.sendTick("timeout")
		} else {
			// advance real tickers until a timeout tick has fired
			for {
				wasTimeout := w.nextTo < w.nextMon
				k.Tr.Logf("#%d env advance to next tick (fair)", k.Steps)
				w.advanceToTick()

				if !k.Quiesce(20000, w.check) {
					return
				}

				if wasTimeout {
					break
				}
			}
		}
	}

	w.fail("C16", "liveness/not-drained", fmt.Sprintf("%d operations still queued after %d forced passes without faults", len(w.q.Model), bound))
}

func (w *wWorld) finalAccounting() {
	var lost []string

	for _, op := range w.ops {
		switch {
		case op.State != 1:
			if len(op.Txns) > 0 {
				w.fail("C16", "conservation/anchored-but-refused", fmt.Sprintf("op%d was refused by Add but anchored", op.ID))
			}
		case len(op.Txns)+op.Expired == 0:
			lost = append(lost, fmt.Sprintf("op%d", op.ID))
		case len(op.Txns) > 0 && op.Expired > 0:
			w.fail("C16", "conservation/anchored-and-expired", fmt.Sprintf("op%d both anchored and reported expired", op.ID))
		}
	}

	if len(lost) > 0 {
		sort.Strings(lost)
		w.fail("C16", "conservation/lost", fmt.Sprintf("accepted operations %v are neither anchored nor expired nor queued at quiescence", lost))
	}
}

func init() {
	register("C16",
		Scenario{Name: "W-M1", World: "W", Weight: 6, Run: func(rc *RunCtx) *RunResult { return runWorldW(rc, "C16", "M1") }},
		Scenario{Name: "W-M2", World: "W", Weight: 2, Run: func(rc *RunCtx) *RunResult { return runWorldW(rc, "C16", "M2") }},
		Scenario{Name: "W-M1-faultfree", World: "W", Weight: 2, Run: func(rc *RunCtx) *RunResult {
			rc.Opt = map[string]string{"faultfree": "1"}

			return runWorldW(rc, "C16", "M1")
		}},
	)
	register("C13",
		Scenario{Name: "W-M1", World: "W", Weight: 4, Run: func(rc *RunCtx) *RunResult { return runWorldW(rc, "C13", "M1") }},
		Scenario{Name: "W-M1-faultfree", World: "W", Weight: 2, Run: func(rc *RunCtx) *RunResult {
			rc.Opt = map[string]string{"faultfree": "1"}

			return runWorldW(rc, "C13", "M1")
		}},
		Scenario{Name: "W-large-batch", World: "W", Weight: 1, Run: runLargeBatch},
	)
}
