// Package worlds contains the simulated worlds (W: batch writer, A: ledger/resolution,
// B: full node, H: hostile CAS), the per-property scenario registry and the worker that runs
// seeds, shrinks failures and writes replay files.
package worlds

import (
	"crypto/sha256"
	"encoding/json"
	"fmt"
	"os"
	"path/filepath"
	"runtime/debug"
	"sort"
	"strconv"
	"strings"
	"sync/atomic"
	"testing"
	"testing/cryptotest"
	"testing/synctest"
	"time"

	"github.com/trustbloc/logutil-go/pkg/log"

	"verifsim/simkit"
)

func init() {
	// the repository logs through zap; the simulator's own trace is the record of a run
	log.SetDefaultLevel(log.PANIC)
}

// HarnessVersion is stamped into replay files; a replay made by another version is refused.
const HarnessVersion = 1

// RunCtx is what a scenario gets for one run.
type RunCtx struct {
	T    *testing.T
	Seed uint64
	K    *simkit.Kernel
	Tier string
	// Opt carries scenario-specific knobs from the replay file / registry.
	Opt map[string]string
}

// RunResult is what one run reports.
type RunResult struct {
	Seed       uint64             `json:"seed"`
	Scenario   string             `json:"scenario"`
	Viol       *simkit.Violation  `json:"violation,omitempty"`
	TraceHash  string             `json:"trace_sha256"`
	SchedHash  uint64             `json:"sched_hash"`
	StateHash  uint64             `json:"state_hash"`
	Steps      int                `json:"steps"`
	SimSeconds float64            `json:"sim_seconds"`
	Counters   map[string]int     `json:"counters"`
	Nontrivial bool               `json:"nontrivial"`
	Sample     interface{}        `json:"sample,omitempty"`
	Tape       []simkit.Draw      `json:"-"`
	Trace      []string           `json:"-"`
	Real       []string           `json:"-"`
	Stub       []string           `json:"-"`
	Extra      map[string]float64 `json:"-"`
}

// Scenario is one way of exercising a property.
type Scenario struct {
	Name   string
	World  string
	Weight int
	Run    func(rc *RunCtx) *RunResult
}

// registry: property id -> scenarios.
var registry = map[string][]Scenario{}

func register(prop string, sc ...Scenario) { registry[prop] = append(registry[prop], sc...) }

// execRun performs one run in a fresh synctest bubble. vals==nil: generate from seed.
func execRun(t *testing.T, prop string, sc *Scenario, seed uint64, vals []uint32, tier string, keepLabels bool) (res *RunResult) {
	progress.Store(time.Now().UnixNano())
	currentRun.Store(fmt.Sprintf("%s seed %d", sc.Name, seed))

	defer func() {
		// a panic that escaped the bubble (e.g. synctest deadlock report) is a harness problem
		if r := recover(); r != nil {
			stack := string(debug.Stack())
			res = &RunResult{Seed: seed, Scenario: sc.Name, Viol: &simkit.Violation{
				Property: "HARNESS", Oracle: "panic", Detail: fmt.Sprintf("%v\n%s", r, stack), Fingerprint: "HARNESS/panic",
			}}

			// a panic raised inside the repository's code while the scheduler evaluates an oracle (e.g. a
			// resolution) is a violation of the property being checked, not a harness problem
			if panicInRepo(stack) {
				res.Viol = &simkit.Violation{Property: prop, Oracle: "panic", Detail: fmt.Sprintf("repository code panicked: %v\n%s", r, stack), Fingerprint: prop + "/panic"}
			}
		}
	}()

	synctest.Test(t, func(t *testing.T) {
		cryptotest.SetGlobalRandom(t, seed^0x5eed)

		var tape *simkit.Tape
		if vals == nil {
			tape = simkit.NewRandomTape(seed)
			tape.KeepLabels = keepLabels
		} else {
			tape = simkit.NewReplayTape(vals)
		}

		k := simkit.NewKernel(tape)
		rc := &RunCtx{T: t, Seed: seed, K: k, Tier: tier}

		func() {
			// a panic on the scheduler goroutine (harness bug, or repository code called inline by an oracle)
			// must not escape the bubble: it would kill the process. Classify it, then let the bubble end.
			defer func() {
				if r := recover(); r != nil {
					stack := string(debug.Stack())
					v := &simkit.Violation{Property: "HARNESS", Oracle: "panic", Detail: fmt.Sprintf("%v\n%s", r, stack), Fingerprint: "HARNESS/panic"}

					if panicInRepo(stack) {
						v = &simkit.Violation{Property: prop, Oracle: "panic", Detail: fmt.Sprintf("repository code panicked: %v\n%s", r, stack), Fingerprint: prop + "/panic"}
					}

					k.Tr.Logf("VIOLATION %s", simkit.FirstLine(v.Error()))
					res = &RunResult{Viol: v}

					func() {
						defer func() { _ = recover() }()
						k.Drain(k.Cleanup)
					}()
				}
			}()

			res = sc.Run(rc)
		}()
		res.Seed = seed
		res.Scenario = sc.Name
		res.Tape = tape.Rec
		res.Trace = k.Tr.Lines()
		res.TraceHash = k.Tr.Hash()
		res.SchedHash = k.ScheduleHash()
		res.Steps = k.Steps
		res.Counters = k.Counters

		if res.Viol == nil {
			res.Viol = k.Viol
		}
	})

	return res
}

var (
	progress   atomic.Int64
	beats      atomic.Int64
	currentRun atomic.Value
)

// Heartbeat tells the watchdog that a long run is making progress (callable from inside a bubble, where
// time.Now is the simulated clock: it only counts, the watchdog goroutine reads the real clock).
func Heartbeat() { beats.Add(1) }

// startWatchdog kills the process when one run does not finish within the limit (a resolution or a
// writer pass that never returns): the driver ties the death to the announced seed and reports it.
func startWatchdog(limit time.Duration) {
	progress.Store(time.Now().UnixNano())

	go func() {
		// the limit is counted in one-second ticks of THIS goroutine during which nothing moved, not as a difference of
		// wall-clock readings: when the whole process (or the machine under it) is suspended for a while - a snapshot of
		// the virtual machine, a stopped process group - the clock jumps but only one tick passes
		lastBeats, lastProgress, idleTicks := beats.Load(), progress.Load(), 0

		for {
			time.Sleep(time.Second)

			if b, p := beats.Load(), progress.Load(); b != lastBeats || p != lastProgress {
				lastBeats, lastProgress, idleTicks = b, p, 0
			} else {
				idleTicks++
			}

			if time.Duration(idleTicks)*time.Second > limit {
				fmt.Printf("WATCHDOG: run %v did not finish within %v - non-termination\n", currentRun.Load(), limit)
				os.Exit(3)
			}
		}
	}()
}

// panicInRepo: is the innermost non-runtime frame of the panicking goroutine in the repository under test?
func panicInRepo(stack string) bool {
	i := strings.Index(stack, "panic(")
	if i < 0 {
		return false
	}

	for _, line := range strings.Split(stack[i:], "\n")[1:] {
		line = strings.TrimSpace(line)

		switch {
		case strings.HasPrefix(line, "runtime.") || strings.HasPrefix(line, "runtime/") || strings.HasPrefix(line, "/") || line == "" ||
			strings.HasPrefix(line, "panic(") || strings.HasPrefix(line, "reflect.") || strings.HasPrefix(line, "encoding/") || strings.HasPrefix(line, "sort.") ||
			strings.HasPrefix(line, "strings.") || strings.HasPrefix(line, "bytes."):
			continue
		case strings.HasPrefix(line, "github.com/trustbloc/sidetree-core-go/"):
			return true
		default:
			return false
		}
	}

	return false
}

// ReplayFile is the self-contained description of a failing run.
type ReplayFile struct {
	Property       string            `json:"property"`
	Oracle         string            `json:"oracle"`
	Fingerprint    string            `json:"fingerprint"`
	World          string            `json:"world"`
	Scenario       string            `json:"scenario"`
	Seed           uint64            `json:"seed"`
	HarnessVersion int               `json:"harness_version"`
	Tier           string            `json:"tier"`
	Tape           []simkit.Draw     `json:"tape"`
	OriginalLen    int               `json:"original_tape_len"`
	ShrinkRuns     int               `json:"shrink_runs"`
	Trace          []string          `json:"trace"`
	Violation      *simkit.Violation `json:"violation"`
	TraceHash      string            `json:"trace_sha256"`
	// FromSeed: no tape recorded (the process died); replay regenerates the run from the seed.
	FromSeed bool `json:"from_seed,omitempty"`
}

// workerOut is what one worker process reports to the driver.
type workerOut struct {
	Unreproduced       int    `json:"unreproduced"`
	UnreproducedSample string `json:"unreproduced_sample,omitempty"`

	Property   string             `json:"property"`
	Worker     int                `json:"worker"`
	Runs       int                `json:"runs"`
	Nontrivial int                `json:"nontrivial"`
	WallS      float64            `json:"wall_s"`
	SimSeconds float64            `json:"sim_seconds"`
	Steps      int                `json:"steps"`
	Counters   map[string]int     `json:"counters"`
	PerScen    map[string]int     `json:"per_scenario"`
	TraceHash  []string           `json:"trace_hashes"` // distinct nontrivial traces (64-bit prefix)
	SchedHash  []string           `json:"sched_hashes"`
	StateHash  []string           `json:"state_hashes"`
	Samples    []interface{}      `json:"samples"`
	Violations []*ReplayFile      `json:"violations"`
	Replays    []string           `json:"replay_paths"`
	Real       []string           `json:"real"`
	Stub       []string           `json:"stub"`
	Extra      map[string]float64 `json:"extra"`
	FirstSeed  uint64             `json:"first_seed"`
	LastSeed   uint64             `json:"last_seed"`
	Digest     string             `json:"digest"`
}

func envInt(name string, def int) int {
	if s := os.Getenv(name); s != "" {
		if v, err := strconv.Atoi(s); err == nil {
			return v
		}
	}

	return def
}

func pickScenario(scs []Scenario, i uint64) *Scenario {
	total := 0
	for _, s := range scs {
		w := s.Weight
		if w <= 0 {
			w = 1
		}

		total += w
	}

	x := int(simkit.SplitMix64(i*7919+13) % uint64(total))
	for j := range scs {
		w := scs[j].Weight
		if w <= 0 {
			w = 1
		}

		if x < w {
			return &scs[j]
		}

		x -= w
	}

	return &scs[0]
}

// Worker is the entry point used by TestWorker.
func Worker(t *testing.T) {
	prop := os.Getenv("VERIF_PROP")
	if prop == "" {
		t.Skip("VERIF_PROP not set")
	}

	scs := registry[prop]
	if len(scs) == 0 {
		t.Fatalf("no scenarios for property %s", prop)
	}

	startWatchdog(time.Duration(envInt("VERIF_RUN_LIMIT_S", 40)) * time.Second)

	if rp := os.Getenv("VERIF_REPLAY"); rp != "" {
		replayMain(t, prop, scs, rp)

		return
	}

	master := uint64(envInt("VERIF_SEED", 1))
	worker := envInt("VERIF_WORKER", 0)
	workers := envInt("VERIF_WORKERS", 1)
	budget := time.Duration(envInt("VERIF_BUDGET_S", 20)) * time.Second
	maxRuns := envInt("VERIF_MAXRUNS", 1<<30)
	tier := os.Getenv("VERIF_TIER")
	outPath := os.Getenv("VERIF_OUT")
	replayDir := os.Getenv("VERIF_REPLAY_DIR")
	only := os.Getenv("VERIF_SCENARIO")

	if only != "" {
		var f []Scenario

		for _, s := range scs {
			if s.Name == only {
				f = append(f, s)
			}
		}

		scs = f
	}

	out := &workerOut{Property: prop, Worker: worker, Counters: map[string]int{}, PerScen: map[string]int{}, Extra: map[string]float64{}}
	traceSet := map[string]bool{}
	schedSet := map[uint64]bool{}
	stateSet := map[uint64]bool{}
	seenFP := map[string]bool{}
	realSet := map[string]bool{}
	stubSet := map[string]bool{}

	digest := sha256.New()
	noShrink := os.Getenv("VERIF_NOSHRINK") != ""

	start := time.Now()

	for i := uint64(worker); out.Runs < maxRuns && time.Since(start) < budget; i += uint64(workers) {
		seed := simkit.SplitMix64(master*0x100000001b3 + i)
		sc := pickScenario(scs, master+i)

		if out.Runs == 0 {
			out.FirstSeed = seed
		}

		out.LastSeed = seed

		if ann := os.Getenv("VERIF_ANNOUNCE"); ann != "" {
			_ = os.WriteFile(ann, []byte(fmt.Sprintf("%s %d", sc.Name, seed)), 0o644)
		}

		res := execRun(t, prop, sc, seed, nil, tier, false)

		// development aid (VERIF_DOUBLECHECK=n): every n-th run is replayed from its own tape at once; the trace must be identical
		if dc := envInt("VERIF_DOUBLECHECK", 0); dc > 0 && out.Runs%dc == 0 && res.Viol == nil {
			vals := make([]uint32, len(res.Tape))
			for j, d := range res.Tape {
				vals[j] = d.V
			}

			again := execRun(t, prop, sc, seed, vals, tier, false)
			if again.TraceHash != res.TraceHash {
				res.Viol = &simkit.Violation{Property: "HARNESS", Oracle: "nondeterminism", Fingerprint: "HARNESS/nondeterminism",
					Detail: fmt.Sprintf("scenario %s seed %d: replaying the run from its own tape gave another trace (%s vs %s)", sc.Name, seed, res.TraceHash[:12], again.TraceHash[:12])}
			}

			out.Extra["doublechecked_runs"]++
		}

		out.Runs++
		out.PerScen[sc.Name]++
		out.Steps += res.Steps
		out.SimSeconds += res.SimSeconds

		for c, n := range res.Counters {
			out.Counters[c] += n
		}

		for c, n := range res.Extra {
			out.Extra[c] += n
		}

		for _, r := range res.Real {
			realSet[r] = true
		}

		for _, r := range res.Stub {
			stubSet[r] = true
		}

		schedSet[res.SchedHash] = true
		stateSet[res.StateHash] = true

		fmt.Fprintf(digest, "%d:%s:%d;", seed, res.TraceHash, len(res.Tape))

		if res.Nontrivial {
			out.Nontrivial++

			if len(res.TraceHash) >= 16 {
				traceSet[res.TraceHash[:16]] = true
			}
		}

		if res.Sample != nil && len(out.Samples) < 3 {
			out.Samples = append(out.Samples, res.Sample)
		}

		if res.Viol != nil {
			fp := res.Viol.Fingerprint
			if seenFP[fp] {
				continue
			}

			seenFP[fp] = true

			if noShrink {
				continue
			}

			rf := shrinkAndDescribe(t, prop, sc, res, tier)

			// the run failed, but running the very same tape again in this process does not: the failure depended on
			// state outside the run (code under test that keeps something between calls). Not reportable as a replay of
			// one run; leave the fingerprint open so that an occurrence that does replay can still be found.
			if rf.Violation == nil {
				out.Unreproduced++
				out.UnreproducedSample = fmt.Sprintf("seed %d %s: %s", seed, fp, simkit.FirstLine(res.Viol.Detail))

				if out.Unreproduced < 6 {
					delete(seenFP, fp)
				}

				continue
			}

			out.Violations = append(out.Violations, rf)

			if replayDir != "" {
				p := filepath.Join(replayDir, fmt.Sprintf("%s-%d.json", rf.Property, seed))
				b, _ := json.MarshalIndent(rf, "", " ")
				_ = os.MkdirAll(replayDir, 0o755)
				_ = os.WriteFile(p, b, 0o644)
				out.Replays = append(out.Replays, p)

				// the unminimised tape as a fallback: shrinking runs inside this process, and code under test that keeps
				// state between calls (a buffer pool, a cache) can make a shrunk tape "fail" only because of what earlier
				// attempts left behind; the driver falls back to this file when the minimised one does not reproduce
				vals := make([]uint32, len(res.Tape))
				for i, d := range res.Tape {
					vals[i] = d.V
				}

				if o := execRun(t, prop, sc, res.Seed, vals, tier, true); o.Viol != nil && o.Viol.Fingerprint == rf.Fingerprint {
					orf := &ReplayFile{Property: o.Viol.Property, Oracle: o.Viol.Oracle, Fingerprint: o.Viol.Fingerprint, World: sc.World, Scenario: sc.Name, Seed: res.Seed,
						HarnessVersion: HarnessVersion, Tier: tier, Tape: o.Tape, OriginalLen: len(vals), Trace: o.Trace, Violation: o.Viol, TraceHash: o.TraceHash}
					ob, _ := json.MarshalIndent(orf, "", " ")
					_ = os.WriteFile(strings.TrimSuffix(p, ".json")+".orig.json", ob, 0o644)
				}
			}

			if len(seenFP) >= 6 {
				break
			}
		}
	}

	out.WallS = time.Since(start).Seconds()
	out.Digest = fmt.Sprintf("%x", digest.Sum(nil))
	out.TraceHash = setKeys(traceSet)

	for h := range schedSet {
		out.SchedHash = append(out.SchedHash, strconv.FormatUint(h, 16))
	}

	for h := range stateSet {
		out.StateHash = append(out.StateHash, strconv.FormatUint(h, 16))
	}

	sort.Strings(out.SchedHash)
	sort.Strings(out.StateHash)
	out.Real = setKeys(realSet)
	out.Stub = setKeys(stubSet)

	b, err := json.Marshal(out)
	if err != nil {
		t.Fatal(err)
	}

	if outPath != "" {
		if err := os.WriteFile(outPath, b, 0o644); err != nil {
			t.Fatal(err)
		}
	} else {
		fmt.Println(string(b))
	}
}

func setKeys(m map[string]bool) []string {
	out := make([]string, 0, len(m))
	for k := range m {
		out = append(out, k)
	}

	sort.Strings(out)

	return out
}

// shrinkAndDescribe minimises the failing tape (same property + oracle must fail) and builds
// the replay file from a final labelled replay.
func shrinkAndDescribe(t *testing.T, prop string, sc *Scenario, res *RunResult, tier string) *ReplayFile {
	orig := make([]uint32, len(res.Tape))
	for i, d := range res.Tape {
		orig[i] = d.V
	}

	want := res.Viol.Property + "/" + res.Viol.Oracle
	budget := time.Duration(envInt("VERIF_SHRINK_S", 25)) * time.Second

	best, runs := simkit.Shrink(orig, func(vals []uint32) (bool, []uint32) {
		r := execRun(t, prop, sc, res.Seed, vals, tier, false)
		if r.Viol == nil || r.Viol.Property+"/"+r.Viol.Oracle != want {
			return false, nil
		}

		consumed := make([]uint32, len(r.Tape))
		for i, d := range r.Tape {
			consumed[i] = d.V
		}

		return true, consumed
	}, budget, 4000)

	final := execRun(t, prop, sc, res.Seed, best, tier, true)
	if final.Viol == nil || final.Viol.Property+"/"+final.Viol.Oracle != want {
		// shrinking is only trusted if the result still fails; fall back to the original
		best = orig
		final = execRun(t, prop, sc, res.Seed, best, tier, true)
	}

	rf := &ReplayFile{
		Property: prop, World: sc.World, Scenario: sc.Name, Seed: res.Seed, HarnessVersion: HarnessVersion, Tier: tier,
		Tape: final.Tape, OriginalLen: len(orig), ShrinkRuns: runs, Trace: final.Trace, Violation: final.Viol, TraceHash: final.TraceHash,
	}

	if final.Viol != nil {
		rf.Oracle = final.Viol.Oracle
		rf.Fingerprint = final.Viol.Fingerprint
		rf.Property = final.Viol.Property
	}

	return rf
}

// replayMain replays a replay file verbatim and prints the outcome as JSON on one line
// prefixed by REPLAY-RESULT.
func replayMain(t *testing.T, prop string, scs []Scenario, path string) {
	b, err := os.ReadFile(path)
	if err != nil {
		t.Fatal(err)
	}

	var rf ReplayFile
	if err := json.Unmarshal(b, &rf); err != nil {
		t.Fatal(err)
	}

	if rf.HarnessVersion != HarnessVersion {
		t.Fatalf("replay file was made by harness version %d, this is %d", rf.HarnessVersion, HarnessVersion)
	}

	var sc *Scenario

	for i := range scs {
		if scs[i].Name == rf.Scenario {
			sc = &scs[i]
		}
	}

	if sc == nil {
		t.Fatalf("scenario %s not found for %s", rf.Scenario, prop)
	}

	vals := make([]uint32, len(rf.Tape))
	for i, d := range rf.Tape {
		vals[i] = d.V
	}

	if rf.FromSeed {
		vals = nil
	}

	res := execRun(t, prop, sc, rf.Seed, vals, rf.Tier, true)

	// label divergence check: a verbatim replay must make the same draws
	diverged := ""

	for i := range rf.Tape {
		if i >= len(res.Tape) {
			break
		}

		if rf.Tape[i].Label != res.Tape[i].Label || rf.Tape[i].N != res.Tape[i].N {
			diverged = fmt.Sprintf("draw %d: file has %s/%d, replay made %s/%d", i, rf.Tape[i].Label, rf.Tape[i].N, res.Tape[i].Label, res.Tape[i].N)

			break
		}
	}

	outc := map[string]interface{}{"trace_sha256": res.TraceHash, "diverged": diverged, "violation": res.Viol}
	if res.Viol != nil {
		outc["fingerprint"] = res.Viol.Fingerprint
	}

	jb, _ := json.Marshal(outc)
	fmt.Println("REPLAY-RESULT " + string(jb))

	if os.Getenv("VERIF_REPLAY_VERBOSE") != "" {
		fmt.Println(strings.Join(res.Trace, "\n"))
	}
}
