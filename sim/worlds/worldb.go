package worlds

import (
	"bytes"
	"encoding/json"
	"errors"
	"fmt"
	"hash/fnv"
	"io"
	"net/http"
	"net/http/httptest"
	"net/url"
	"reflect"
	"sort"
	"strings"
	"time"

	"github.com/gorilla/mux"

	"github.com/trustbloc/sidetree-core-go/pkg/api/operation"
	"github.com/trustbloc/sidetree-core-go/pkg/api/protocol"
	"github.com/trustbloc/sidetree-core-go/pkg/api/txn"
	"github.com/trustbloc/sidetree-core-go/pkg/batch"
	"github.com/trustbloc/sidetree-core-go/pkg/batch/cutter"
	"github.com/trustbloc/sidetree-core-go/pkg/batch/opqueue"
	"github.com/trustbloc/sidetree-core-go/pkg/canonicalizer"
	"github.com/trustbloc/sidetree-core-go/pkg/dochandler"
	"github.com/trustbloc/sidetree-core-go/pkg/encoder"
	"github.com/trustbloc/sidetree-core-go/pkg/hashing"
	"github.com/trustbloc/sidetree-core-go/pkg/mocks"
	"github.com/trustbloc/sidetree-core-go/pkg/observer"
	"github.com/trustbloc/sidetree-core-go/pkg/patch"
	"github.com/trustbloc/sidetree-core-go/pkg/processor"
	restdoc "github.com/trustbloc/sidetree-core-go/pkg/restapi/dochandler"
	"github.com/trustbloc/sidetree-core-go/pkg/versions/1_0/operationparser"
	"github.com/trustbloc/sidetree-core-go/pkg/versions/1_0/txnprovider"

	"verifsim/refmodel"
	"verifsim/simenv"
	"verifsim/simkit"
	"verifsim/workload"
)

// World B – one full node, every component real: REST update/resolve handlers -> document
// handler (default decorator) -> batch writer -> operation handler -> CAS -> ledger ->
// observer -> transaction processor -> operation provider -> operation store -> operation
// processor -> DID validator/transformer. Simulated: CAS, ledger, stores, clock, protocol
// client. Serves C20, C15, C11 and the intake halves of C04, C05, C12.

const bNS = "did:sim"

type bOp struct {
	hash, revealHash uint // algorithms the request was built under (0: the DID's)

	ID       int
	DID      *bDID
	Type     operation.Type
	Req      []byte
	Key      string
	M        *refmodel.Op
	Byz      string
	Accepted bool
	Status   int
	Err      string
	Version  uint64
	Txns     []int
	Stored   int
	Expired  bool
	Dup      bool
	Suffix   string
	// Compact: the client spells the large numbers of this request as 1e20 (the request is shorter than its canonical form)
	Compact bool
}

type bDID struct {
	Idx      int
	Suffix   string
	Hash     uint
	KeyType  workload.KeyType
	Upd, Rec *workload.Key
	Ops      []*bOp
	Create   *bOp

	CreateResp map[string]interface{}
	LongResp   map[string]interface{}
	LongForm   string
	Dead       bool // the client has submitted a deactivate

	// the multihash algorithm under which the commitment currently in force was made (a controller may move to the
	// protocol's other algorithm with any operation; the reveal value then still uses the old one)
	updAlg, recAlg uint
	lastNote       string // what the client believes the document's note to be

	// what the create was built from (a sibling DID may be created from the same ingredients with another anchor origin)
	initUpd, initRec *workload.Key
	createPD         []workload.PatchDesc
	createPatches    []patch.Patch
	createOpaque     string
	createType       string
}

type bTxn struct {
	Idx        int
	Honest     bool
	Included   []*bOp
	Byz        string
	Faulted    bool
	Delivered  bool
	Deliveries int
	Observed   bool
	CoreURI    string
	Puts       int
	ReplayOf   int
}

type bWorld struct {
	k     *simkit.Kernel
	prop  string
	start time.Time

	versions   []*simenv.Version
	proto      *simenv.ProtoClient
	cas        *simenv.CAS
	ledger     *simenv.Ledger
	store      *simenv.OpStore
	unpub      *simenv.Unpub
	useUnpub   bool
	unpubTypes []operation.Type
	q          *simenv.QueueProxy
	writer     *batch.Writer
	handler    *dochandler.DocumentHandler
	update     *restdoc.UpdateHandler
	// tightOps: the operation size limit of this run is close to the size of ordinary requests
	tightOps bool
	// intakeProtoDown: the REST layer's protocol client fails its next Current call
	intakeProtoDown bool
	router          *mux.Router
	obs             *observer.Observer
	sub             *simenv.Subscription
	proc            *processor.OperationProcessor
	tv              *simenv.SimTimeValidator

	monCh, toCh  chan time.Time
	redeliveries int
	curDID       *bDID // the DID whose client is building an operation right now
	pendingTick  string
	passKind     string // the kind of the writer pass in progress ("startup", "monitor", "timeout")
	maxOps       uint

	dids     []*bDID
	ops      []*bOp
	byKey    map[string]*bOp
	txns     []*bTxn
	byCore   map[string][]*bTxn
	obsQueue []*bTxn
	inFlight []*bTxn // transactions of the notification the observer is working on

	// second, observer-only node (replica): own store, own observer, own delivery schedule, no injected faults
	store2  *simenv.OpStore
	sub2    *simenv.Subscription
	obs2    *observer.Observer
	cursor2 int
	crashes int
	curObs  *bTxn
	curCut  []*operation.QueuedOperation
	curInfo *protocol.AnchoringInfo
	failAt  int
	wIdx    int

	clientsDone []bool
	opsPerDID   int
	label       string
	alias       string
	kg          workload.KeyGen

	rates     map[string]int
	faultsOff bool

	ticks, clockMoves, byzTxns int
	nontrivial                 bool
	samples                    []string
	stateSeq                   uint64
	mark                       int
	expectedWindows            map[[2]int64]bool
	tvSeen                     int
}

type bContext struct{ w *bWorld }

func (c bContext) Protocol() protocol.Client             { return c.w.proto }
func (c bContext) Anchor() batch.AnchorWriter            { return c.w.ledger }
func (c bContext) OperationQueue() cutter.OperationQueue { return c.w.q }

func (w *bWorld) ledgerNow() uint64 { return ledgerBase + uint64(time.Since(w.start)/time.Second) }

func (w *bWorld) fail(prop, oracle, detail string) {
	w.k.Fail(&simkit.Violation{Property: prop, Oracle: oracle, Detail: detail, Fingerprint: prop + "/" + oracle})
}

func (w *bWorld) fault(name string) bool {
	return !w.faultsOff && w.k.Fault(name, w.rates[name])
}

func runWorldB(rc *RunCtx, prop string) *RunResult {
	k := rc.K
	k.PanicProp = prop
	k.Props = map[string]bool{prop: true}
	T := k.T

	simenv.ErrExpired = operationparser.ErrOperationExpired
	simenv.ErrEarly = operationparser.ErrOperationEarly

	w := &bWorld{k: k, prop: prop, start: time.Now(), byKey: map[string]*bOp{}, byCore: map[string][]*bTxn{}, rates: map[string]int{}, failAt: -1,
		expectedWindows: map[[2]int64]bool{}}

	// ---- swarm configuration
	maxOps := uint(T.Range(1, 5, "cfg.maxOps"))
	nVersions := 1 + T.Draw(3, "cfg.versions")

	// the operation size limit is mostly far away; in some runs it is close to the size of ordinary requests (larger ones
	// are then rightly refused at intake)
	maxOpSize := uint(20000)
	if T.Draw(6, "cfg.tight-opsize") == 0 {
		maxOpSize = uint(1400 + 100*T.Draw(10, "cfg.tight-opsize.value"))
		w.tightOps = true
	}
	nDIDs := 1 + T.Draw(4, "cfg.dids")
	nClients := 1 + T.Draw(3, "cfg.clients")
	opsPerDID := 1 + T.Draw(6, "cfg.opsPerDid")
	maxSteps := 150 + T.Draw(900, "cfg.steps")
	w.useUnpub = T.Draw(3, "cfg.unpub") == 0
	perSuffix := w.useUnpub && T.Draw(2, "cfg.unpub.persuffix") == 0 // a store indexed by DID: one pending operation per DID

	if T.Draw(6, "cfg.wide") == 0 { // many DIDs, large batches: transactions with many operations
		nDIDs = 5 + T.Draw(6, "cfg.dids.wide")
		maxOps = uint(4 + T.Draw(9, "cfg.maxOps.wide"))
		opsPerDID = 1 + T.Draw(3, "cfg.opsPerDid.wide")
		nClients = 2 + T.Draw(3, "cfg.clients.wide")
	}

	pick := func(name string, vals ...int) { w.rates[name] = vals[T.Draw(len(vals), "cfg.rate."+name)] }

	switch prop {
	case "C20", "C11", "C04", "C05", "C12", "C06", "C16":
		pick("cas.werr", 0, 0, 80, 200)
		pick("anchor.err", 0, 0, 80, 200)
		pick("req.dup", 0, 0, 100)
		pick("deliver.reorder", 0, 0, 150)
		pick("proto.err", 0, 0, 60)
	case "C15":
		pick("proto.err", 0, 60)
		pick("cas.werr", 0, 100)
		pick("anchor.err", 0, 100)
		pick("store.perr", 0, 100, 250)
		pick("cas.rerr", 0, 100, 250)
		pick("queue.adderr", 0, 150)
		pick("unpub.err", 0, 150)
		pick("unpub.delerr", 0, 0, 150)
		pick("byz.txn", 0, 150, 300)
		pick("obs.crash", 0, 0, 1)
		pick("deliver.reorder", 0, 150)
		pick("req.dup", 0, 100)
	}

	if rc.Opt["faultfree"] == "1" {
		w.rates = map[string]int{}
	}

	// ---- outside world
	w.cas = simenv.NewCAS(k, "cas")
	w.cas.WriteFault = func(_ int, _ []byte) error {
		if k.IsInline() || w.curCut == nil {
			return nil
		}

		idx := w.wIdx
		w.wIdx++

		if !w.faultsOff && idx == w.failAt {
			k.Count("fault:cas.werr")

			return errors.New("injected CAS write failure")
		}

		return nil
	}
	w.cas.ReadFault = func(addr string, _ []byte, _ bool) ([]byte, error) {
		if k.IsInline() || k.Cur() != "O" {
			return nil, nil
		}

		// The observer works through delivered transactions strictly in delivery order, and the first read
		// of a transaction is its core index file: advance to the first pending transaction with that address.
		for i, t := range w.obsQueue {
			if t.CoreURI == addr {
				w.curObs = t
				w.obsQueue = w.obsQueue[i+1:]

				break
			}
		}

		if w.fault("cas.rerr") {
			if w.curObs != nil {
				w.curObs.Faulted = true
			}

			return nil, errors.New("injected CAS read failure")
		}

		return nil, nil
	}

	w.ledger = simenv.NewLedger(k, "ledger", bNS, w.ledgerNow)
	w.ledger.AnchorFault = func(int) error {
		if w.fault("anchor.err") {
			return errors.New("injected anchor write failure")
		}

		return nil
	}
	w.ledger.OnAnchor = w.onAnchor

	w.store = simenv.NewOpStore(k, "store")
	w.store.PutFault = func(int) error {
		if w.fault("store.perr") {
			if w.curObs != nil {
				w.curObs.Faulted = true

				// a transaction that cannot be stored contributes nothing: in particular the unpublished copies of
				// its operations must still be there when the store write fails (first delivery only)
				// (not with a store indexed by DID: there any earlier transaction of the DID - a replayed one, say - cleans
				// the DID's pending entry up, whichever operation it holds)
				if w.useUnpub && !w.unpub.PerSuffix && w.curObs.Honest && w.curObs.Puts == 0 && !w.replayed(w.curObs) {
					for _, op := range w.curObs.Included {
						// (a retried request is byte-identical to its original: anchoring either of them legitimately
						// removes an unpublished copy of "that request" - the oracle speaks about unique requests only)
						if w.unpubConfigured(op.Type) && w.uniqueRequest(op) && !w.inUnpub(op) {
							w.fail("C15", "store-failure/unpublished-removed", fmt.Sprintf("the store write of txn%d failed, yet the unpublished copy of op%d (%s) is already gone", w.curObs.Idx, op.ID, op.Type))
						}
					}

					k.Count("probe:store-failure-with-unpublished-copies")
				}
			}

			return errors.New("injected store failure")
		}

		return nil
	}

	w.unpub = simenv.NewUnpub(k, "unpub")
	w.unpub.PerSuffix = perSuffix
	w.unpub.Fault = func(op string) error {
		if op == "Put" && w.fault("unpub.err") {
			return errors.New("injected unpublished-store failure")
		}

		// (the transaction's operations are stored by then; the unpublished copies linger)
		if op == "DeleteAll" && w.fault("unpub.delerr") {
			return errors.New("injected unpublished-store failure")
		}

		return nil
	}

	w.tv = &simenv.SimTimeValidator{Now: func() int64 { return int64(w.ledgerNow()) }, Keep: true}

	allTypes := []operation.Type{operation.TypeCreate, operation.TypeUpdate, operation.TypeRecover, operation.TypeDeactivate}

	// the unpublished store may be configured for a subset of the operation types
	if w.useUnpub && T.Draw(2, "cfg.unpub.subset") == 0 {
		var sub []operation.Type

		for _, t := range allTypes {
			if T.Draw(2, "cfg.unpub.type") == 0 {
				sub = append(sub, t)
			}
		}

		if len(sub) == 0 {
			sub = []operation.Type{operation.TypeUpdate}
		}

		allTypes = sub
	}

	w.unpubTypes = allTypes

	var genesis []uint64

	for i := 0; i < nVersions; i++ {
		g := uint64(0)
		if i > 0 {
			g = ledgerBase + uint64(5+T.Draw(60, "cfg.genesis"))
			if g <= genesis[i-1] {
				g = genesis[i-1] + uint64(1+T.Draw(30, "cfg.genesis"))
			}
		}

		genesis = append(genesis, g)

		p := simenv.DefaultProtocol(g)
		p.MaxOperationCount = maxOps
		w.maxOps = maxOps
		p.MaxOperationSize = maxOpSize
		p.MaxDeltaSize = uint(3000 + 500*i)
		p.MaxOperationTimeDelta = uint64(30 + 17*i)
		// every version enables both hash algorithms (a DID keeps the algorithm it was created with); the primary one varies
		p.MultihashAlgorithms = [][]uint{{simenv.SHA2_256, simenv.SHA2_512}, {simenv.SHA2_512, simenv.SHA2_256}}[(i+T.Draw(2, "cfg.hashset"))%2]

		// a later version may retire one signing-key type (curve and signature algorithm): DIDs held under such keys can no
		// longer submit, but everything accepted before the switch is still batched, read back and applied under its own version
		if i > 0 && T.Draw(4, "cfg.retire.alg") == 0 {
			kt := workload.KeyType(1 + T.Draw(int(workload.NumKeyTypes)-1, "cfg.retire.which"))

			var ka, sa []string

			for _, a := range p.KeyAlgorithms {
				if a != kt.String() {
					ka = append(ka, a)
				}
			}

			for _, a := range p.SignatureAlgorithms {
				if a != kt.Alg() {
					sa = append(sa, a)
				}
			}

			p.KeyAlgorithms, p.SignatureAlgorithms = ka, sa
		}

		// a version may not know the also-known-as patch actions (an earlier one that predates them, or a later one that
		// retired them): operations are validated and applied under the version that accepted them, whatever is current
		if T.Draw(4, "cfg.aka.off") == 0 {
			var kept []string

			for _, a := range p.Patches {
				if a != "add-also-known-as" && a != "remove-also-known-as" {
					kept = append(kept, a)
				}
			}

			p.Patches = kept
		}

		deps := &simenv.VersionDeps{CAS: w.cas, TimeValidator: w.tv, OpStore: w.store}
		if w.useUnpub {
			deps.Unpublished = w.unpub
			deps.UnpubTypes = allTypes
		}

		v := simenv.NewVersion(p, deps)
		v.OnBefore = w.beforeHandler
		v.OnHandler = w.afterHandler
		w.versions = append(w.versions, v)
	}

	w.proto = simenv.NewProtoClient(k, w.ledgerNow, w.versions...)
	w.proto.Namespace = bNS

	var popts []processor.Option
	if w.useUnpub {
		popts = append(popts, processor.WithUnpublishedOperationStore(w.unpub))
	}

	w.proc = processor.New("node", w.store, w.proto, popts...)

	w.q = &simenv.QueueProxy{K: k, Label: "q", Real: &opqueue.MemQueue{}, Prop: "C16"}
	w.q.AddFault = func() error {
		if k.Cur() != "W" && w.fault("queue.adderr") {
			return errors.New("injected queue failure")
		}

		return nil
	}

	w.q.OnRemove = w.onRemove
	w.passKind = "startup"

	var err error

	w.writer, err = batch.New(bNS, bContext{w})
	if err != nil {
		panic(err)
	}

	w.monCh, w.toCh = make(chan time.Time, 1), make(chan time.Time, 1)
	w.writer.VerifSetTickers(w.monCh, w.toCh)

	var hopts []dochandler.Option

	// optional label / domain hints for unpublished (interim) documents
	if T.Draw(4, "cfg.label") == 0 {
		w.label = "lbl"
		hopts = append(hopts, dochandler.WithLabel(w.label))

		if T.Draw(2, "cfg.domain") == 0 {
			hopts = append(hopts, dochandler.WithDomain("dom.example"))
		}
	}

	if w.useUnpub {
		hopts = append(hopts, dochandler.WithUnpublishedOperationStore(w.unpub, allTypes))
	}

	// optional namespace alias: the same DIDs are also addressable under a second prefix
	var aliases []string

	if T.Draw(3, "cfg.alias") == 0 {
		w.alias = "did:alias"
		aliases = []string{w.alias}
	}

	w.handler = dochandler.New(bNS, aliases, w.proto, w.writer, w.proc, &mocks.MetricsProvider{}, hopts...)
	// the REST layer has its own protocol client (same versions, same clock), which may be unavailable for one request
	protoIntake := simenv.NewProtoClient(k, w.ledgerNow, w.versions...)
	protoIntake.FailCurrent = func() error {
		if w.intakeProtoDown {
			w.intakeProtoDown = false

			return errors.New("injected: protocol client unavailable")
		}

		return nil
	}
	w.update = restdoc.NewUpdateHandler(w.handler, protoIntake, &mocks.MetricsProvider{})
	resolve := restdoc.NewResolveHandler(w.handler, &mocks.MetricsProvider{})
	w.router = mux.NewRouter()
	w.router.HandleFunc("/identifiers/{id}", resolve.Resolve)

	w.sub = w.ledger.Subscribe()
	w.obs = observer.New(&observer.Providers{Ledger: simenv.SubLedger{S: w.sub}, ProtocolClientProvider: w.proto})

	w.store.OnPut = w.onPut

	// the replica node
	w.store2 = simenv.NewOpStore(k, "store2")

	var versions2 []*simenv.Version

	for _, v := range w.versions {
		versions2 = append(versions2, simenv.NewVersion(v.P, &simenv.VersionDeps{CAS: w.cas, OpStore: w.store2}))
	}

	proto2 := simenv.NewProtoClient(k, w.ledgerNow, versions2...)
	proto2.Namespace = bNS
	w.sub2 = w.ledger.Subscribe()
	w.obs2 = observer.New(&observer.Providers{Ledger: simenv.SubLedger{S: w.sub2}, ProtocolClientProvider: proto2})

	// ---- parties
	w.buildDIDs(nDIDs)
	w.clientsDone = make([]bool, nClients)
	w.opsPerDID = opsPerDID

	for c := 0; c < nClients; c++ {
		c := c
		k.Go(fmt.Sprintf("c%d", c), func() { w.clientTask(c, nClients, opsPerDID) })
	}

	k.Cleanup = func() {
		w.writer.Stop()
		w.obs.Stop()
		w.obs2.Stop()
	}
	k.SetCur("W")
	w.writer.Start()
	k.Settle()
	k.SetCur("O")
	w.obs.Start()
	k.Settle()
	k.SetCur("O2")
	w.obs2.Start()
	k.Settle()

	k.Run(maxSteps, w.env, w.check)

	if k.Viol == nil {
		w.livenessPhase()
	}

	if k.Viol == nil {
		k.Inline(w.finalOracles)
	}

	simSeconds := time.Since(w.start).Seconds()

	k.Drain(func() {
		w.writer.Stop()
		w.obs.Stop()
		w.obs2.Stop()
	})

	res := &RunResult{
		Viol: k.Viol, SimSeconds: simSeconds, Nontrivial: w.nontrivial, StateHash: w.stateSeq,
		Real: []string{"restapi UpdateHandler/ResolveHandler", "dochandler.DocumentHandler (default decorator)", "batch.Writer", "cutter", "opqueue.MemQueue",
			"txnprovider.OperationHandler", "txnprovider.OperationProvider", "observer.Observer", "txnprocessor", "processor.OperationProcessor",
			"operationparser", "operationapplier", "doccomposer", "didvalidator", "didtransformer", "compression(gzip)", "client request builders", "signers"},
		Stub: []string{"CAS", "ledger", "operation store", "unpublished operation store", "protocol.Client", "clock", "TimeValidator"},
	}

	if len(w.samples) > 0 {
		res.Sample = map[string]interface{}{"maxOps": maxOps, "versions": genesis, "dids": len(w.dids), "unpublishedStore": w.useUnpub, "events": w.samples}
	}

	return res
}

func (w *bWorld) buildDIDs(n int) {
	T := w.k.T

	for i := 0; i < n; i++ {
		kt := workload.KeyType(T.Draw(int(workload.NumKeyTypes), "did.keytype"))
		if kt >= workload.P384 && T.Draw(3, "did.slowkey") != 0 {
			kt = workload.Ed25519
		}

		w.dids = append(w.dids, &bDID{Idx: i, KeyType: kt})
	}
}

func (w *bWorld) nextMark() string {
	w.mark++

	return fmt.Sprintf("m%d", w.mark)
}

func (w *bWorld) newKey(d *bDID) *workload.Key {
	return w.kg.New(d.KeyType, w.k.Draw(5, "key.nonce") == 0)
}

// genPatches draws model-predictable patches.
func (w *bWorld) genPatches(create bool) []workload.PatchDesc {
	n := 1 + w.k.Draw(3, "patch.n")

	var out []workload.PatchDesc

	for i := 0; i < n; i++ {
		kinds := []workload.PatchKind{workload.AddKey, workload.AddSvc, workload.RemoveKey, workload.RemoveSvc, workload.AddKey, workload.AddAKA, workload.ReplaceAll, workload.AddNote, workload.ReplaceNote}
		kind := kinds[w.k.Draw(len(kinds), "patch.kind")]

		if create && i == 0 {
			kind = workload.AddKey
		}

		if kind == workload.AddAKA && !w.akaEnabled() {
			kind = workload.AddSvc // the client library only offers what the current protocol version knows
		}

		pool := workload.KeyIDs()
		if kind == workload.AddSvc || kind == workload.RemoveSvc {
			pool = workload.SvcIDs()
		}

		if kind == workload.AddAKA {
			pool = []string{"https://a.example/1", "did:ex:2", "https://a.example/\u00fc?x=1&y=<2>"}
		}

		first := w.k.Draw(len(pool), "patch.id")
		ids := []string{pool[first]}

		if w.k.Draw(3, "patch.two") == 0 {
			ids = append(ids, pool[(first+1)%len(pool)])
		}

		if kind == workload.ReplaceAll && !(create && i == 0) && w.k.Draw(4, "patch.replace.empty") == 0 {
			ids = nil // replace with the empty document {}
		}

		if kind == workload.ReplaceNote && create {
			kind = workload.AddNote // (a create whose test-and-replace cannot apply would be an invalid input)
		}

		mark := w.nextMark()

		// notes: an ietf-json-patch that adds /note, or one that tests the value the client believes is there and replaces
		// it (it fails to apply - the update then only consumes its commitment - when the belief is wrong)
		if kind == workload.AddNote || kind == workload.ReplaceNote {
			mark = noteValue(mark)

			if kind == workload.ReplaceNote {
				guess := "never-set"
				if w.curDID != nil && w.curDID.lastNote != "" {
					guess = w.curDID.lastNote
				}

				ids = []string{guess}
			}

			if w.curDID != nil {
				w.curDID.lastNote = mark
			}
		}

		out = append(out, workload.PatchDesc{Kind: kind, IDs: ids, Mark: mark})
	}

	return out
}

// keyTypeEnabled: does the protocol version that is current now accept signing keys of this type?
func (w *bWorld) keyTypeEnabled(kt workload.KeyType) bool {
	for _, a := range w.proto.CurrentVersion().P.KeyAlgorithms {
		if a == kt.String() {
			return true
		}
	}

	return false
}

// akaEnabled: does the protocol version that is current now know the also-known-as patch actions?
func (w *bWorld) akaEnabled() bool {
	for _, a := range w.proto.CurrentVersion().P.Patches {
		if a == "add-also-known-as" {
			return true
		}
	}

	return false
}

func usesAKA(op *bOp) bool {
	for _, pd := range op.M.Patches {
		if pd.Kind == workload.AddAKA || pd.Kind == workload.RemoveAKA {
			return true
		}
	}

	return false
}

// genOpaque draws an opaque document (the client library turns it into patches itself).
func (w *bWorld) genOpaque() (string, []workload.PatchDesc) {
	k := w.k
	keys := workload.KeyIDs()[:k.Draw(4, "opaque.keys")] // possibly none: a document of services / also-known-as only

	var svcs, uris []string

	if k.Draw(2, "opaque.svc") == 0 {
		svcs = workload.SvcIDs()[:1+k.Draw(2, "opaque.svcs")]
	}

	if k.Draw(3, "opaque.aka") == 0 && w.akaEnabled() {
		uris = []string{"https://a.example/1"}
	}

	note := ""
	if k.Draw(3, "opaque.note") == 0 {
		note = "note-" + w.nextMark()

		// the extra top-level member may carry a name that needs escaping in a JSON pointer / JSON string
		if k.Draw(3, "opaque.oddname") == 0 {
			note = workload.OddMemberNames[k.Draw(len(workload.OddMemberNames), "opaque.oddname.which")] + "\x00" + note
		}
	}

	// a further top-level member may be an empty list or an empty object (it is a member like any other)
	if note == "" && k.Draw(5, "opaque.emptyvalue") == 0 {
		note = []string{"labels", "authentication", "extensions"}[k.Draw(3, "opaque.emptyvalue.name")] + "\x00\x00" + []string{"[]", "{}", "[[]]"}[k.Draw(3, "opaque.emptyvalue.value")]
	}

	if len(keys) == 0 && len(svcs) == 0 && len(uris) == 0 && note == "" {
		keys = workload.KeyIDs()[:1] // (an empty document is not a valid input)
	}

	w.k.Count("probe:opaque-document-request")

	doc, pd := workload.OpaqueDoc(keys, svcs, uris, note, w.nextMark())

	// a document may spell out that it has no services (or no keys) with an empty list: nothing is added for it
	// (or with null, which is how a client written in Go marshals a list it never filled)
	if k.Draw(5, "opaque.emptylist") == 0 {
		empty := []string{"[]", "null"}[k.Draw(2, "opaque.emptylist.spelling")]

		switch {
		case len(svcs) == 0:
			doc = `{"service":` + empty + `,` + doc[1:]
		case len(keys) == 0:
			doc = `{"publicKey":` + empty + `,` + doc[1:]
		case len(uris) == 0:
			doc = `{"alsoKnownAs":` + empty + `,` + doc[1:]
		}
	}

	return doc, pd
}

// hasEmptyList: the opaque document spells out an empty key or service list (the builder may refuse such a document; a
// request it does build from it must be accepted and mean the same as without the empty member).
func hasEmptyList(opaque string) bool {
	for _, m := range []string{"service", "publicKey", "alsoKnownAs"} {
		if strings.Contains(opaque, `"`+m+`":[]`) || strings.Contains(opaque, `"`+m+`":null`) {
			return true
		}
	}

	return false
}

// ---------------------------------------------------------------- clients

// post submits a request: through the REST update handler, or (one time in three) directly through the document
// handler, naming the protocol version by the current transaction time as protocol.Client.Get allows.
func (w *bWorld) post(req []byte) (int, []byte) {
	if w.k.Draw(3, "post.direct") == 0 {
		w.k.Count("probe:submitted-directly-to-document-handler")

		res, err := w.handler.ProcessOperation(req, w.ledgerNow())
		if err != nil {
			if strings.Contains(err.Error(), "bad request") {
				return http.StatusBadRequest, []byte(err.Error())
			}

			return http.StatusInternalServerError, []byte(err.Error())
		}

		b, _ := json.Marshal(res)

		return http.StatusOK, b
	}

	// over a real connection the body reaches the handler in pieces: one Read rarely returns everything
	rr := httptest.NewRecorder()
	hr := httptest.NewRequest(http.MethodPost, "/operations", &chunkReader{b: req, n: []int{1 << 20, 4096, 512, 7, 1}[w.k.Draw(5, "post.chunk")]})
	hr.ContentLength = int64(len(req))

	down := w.fault("proto.err")
	w.intakeProtoDown = down
	w.update.Update(rr, hr)
	w.intakeProtoDown = false

	if down && rr.Code < 500 {
		w.fail(w.prop, "intake/answered-without-protocol", fmt.Sprintf("the REST update handler answered %d although its protocol client was unavailable", rr.Code))
	}

	return rr.Code, rr.Body.Bytes()
}

func (w *bWorld) get(id string) (int, map[string]interface{}) {
	rr := httptest.NewRecorder()
	w.router.ServeHTTP(rr, httptest.NewRequest(http.MethodGet, "/identifiers/"+id, nil))

	var m map[string]interface{}
	if json.Unmarshal(rr.Body.Bytes(), &m) != nil {
		m = map[string]interface{}{"error": strings.TrimSpace(rr.Body.String())}
	}

	return rr.Code, m
}

// clientTask drives the DIDs assigned to this client, one operation at a time.
func (w *bWorld) clientTask(c, nClients, opsPerDID int) {
	k := w.k

	defer func() { w.clientsDone[c] = true }()

	var mine []*bDID

	for _, d := range w.dids {
		if d.Idx%nClients == c {
			mine = append(mine, d)
		}
	}

	remaining := map[*bDID]int{}
	for _, d := range mine {
		remaining[d] = opsPerDID
	}

	for len(mine) > 0 && !k.Draining() {
		i := k.Draw(len(mine), "client.did")
		d := mine[i]

		w.clientStep(d)

		remaining[d]--
		if remaining[d] <= 0 {
			mine = append(mine[:i:i], mine[i+1:]...)
		}
	}
}

// storedAll: every accepted operation of the DID has been stored by the observer (or expired).
func (w *bWorld) settled(d *bDID) bool {
	for _, op := range d.Ops {
		if op.Accepted && op.Stored == 0 && !op.Expired {
			return false
		}
	}

	return true
}

// untransformableCreate (C15, intake half): a create that passes intake validation but whose document the DID transformer
// cannot render (an Ed25519 verification key type over an EC JWK): whether the node accepts or refuses it, a refusal
// must leave no trace in the batch queue or the unpublished-operation store.
func (w *bWorld) untransformableCreate() {
	k := w.k
	hash := w.proto.CurrentVersion().P.MultihashAlgorithms[0]
	tmp := &bDID{Idx: -1, KeyType: workload.Ed25519, Hash: hash}
	tmp.Upd, tmp.Rec = w.newKey(tmp), w.newKey(tmp)

	p, err := patch.NewAddPublicKeysPatch(`[{"id":"e1","type":"Ed25519VerificationKey2018","purposes":["authentication"],"publicKeyJwk":{"kty":"EC","crv":"P-256","x":"` +
		w.nextMark() + `","y":"nM84jDHCMOTGTh_ZdHq4dBBdo4Z5PkEOW9jA8z8IsGc"}}]`)
	if err != nil {
		return
	}

	req, err := workload.Build(&workload.OpSpec{Type: operation.TypeCreate, Hash: hash, NextUpdate: tmp.Upd, NextRecovery: tmp.Rec, Patches: []patch.Patch{p}, AnchorOrigin: "origin-x"})
	if err != nil {
		return
	}

	op := w.newOp(tmp, operation.TypeCreate, req, &refmodel.Op{Type: refmodel.Create, Label: "byz/untransformable-create"})
	op.Byz = "untransformable-create"
	k.Count("probe:byz-untransformable-create")
	w.submit(op)
}

func (w *bWorld) clientStep(d *bDID) {
	k := w.k
	w.curDID = d

	if w.prop == "C15" && k.Draw(10, "client.untransformable") == 0 {
		w.untransformableCreate()
	}

	v := w.proto.CurrentVersion()
	hash := v.P.MultihashAlgorithms[0]

	// patient mode: wait until everything submitted so far for this DID is anchored and stored
	// (with an unpublished-operation store clients are mostly patient - pending copies then never pile up - but not always)
	patient := (w.useUnpub && k.Draw(2, "client.patient.unpub") != 0) || k.Draw(3, "client.patient") == 0
	if patient && len(d.Ops) > 0 {
		k.WaitUntil("client.wait-settled", func() bool { return w.settled(d) || w.faultsOffAndIdle() })

		if k.Draining() {
			return
		}

		// (time has passed while waiting: the client builds its request for the protocol version that is current NOW)
		v = w.proto.CurrentVersion()
		hash = v.P.MultihashAlgorithms[0]
	}

	if d.Create == nil {
		d.Hash = hash
		d.updAlg, d.recAlg = hash, hash
		d.Upd, d.Rec = w.newKey(d), w.newKey(d)

		// one controller may hold several DIDs under one recovery key: their recovers / deactivates then reveal the same key
		if k.Draw(4, "did.sharedrec") == 0 {
			for _, o := range w.dids {
				if o != d && o.Rec != nil && o.KeyType == d.KeyType && !o.Dead {
					d.Rec = o.Rec
					k.Count("probe:recovery-key-shared-between-dids")

					break
				}
			}
		}

		pd := w.genPatches(true)
		patches, _ := workload.ToPatches(pd)
		var origin interface{} = originValue(w.mark)
		w.nextMark()
		opaque := ""

		if k.Draw(3, "client.opaque") == 0 {
			opaque, pd = w.genOpaque()
			patches = nil
		}

		suffixType := []string{"", "", "ipdb"}[w.mark%3]

		// a sibling: the same initial state (document, keys, type) registered once more under ANOTHER anchor origin - the
		// two suffix data objects differ in the anchor origin only, so do the DIDs
		if k.Draw(8, "did.sibling") == 0 {
			for _, o := range w.dids {
				if o != d && o.Create != nil && o.KeyType == d.KeyType && o.Hash == hash && o.initUpd != nil {
					d.Upd, d.Rec, pd, patches, opaque, suffixType = o.initUpd, o.initRec, o.createPD, o.createPatches, o.createOpaque, o.createType
					origin = map[string]interface{}{"sibling-of": o.Idx, "origin": fmt.Sprintf("origin-%d", w.mark)}
					k.Count("probe:sibling-create-differing-in-anchor-origin-only")

					break
				}
			}
		}

		d.initUpd, d.initRec, d.createPD, d.createPatches, d.createOpaque, d.createType = d.Upd, d.Rec, pd, patches, opaque, suffixType

		req, err := workload.Build(&workload.OpSpec{Type: operation.TypeCreate, Hash: hash, NextUpdate: d.Upd, NextRecovery: d.Rec, Patches: patches, OpaqueDocument: opaque, AnchorOrigin: origin,
			SuffixType: suffixType})
		if err != nil {
			if hasEmptyList(opaque) {
				k.Count("probe:builder-refused-empty-list")

				return
			}

			w.fail("C11", "builder/valid-input-refused", "the client request builder refused valid input: "+err.Error())

			return
		}

		m := &refmodel.Op{Type: refmodel.Create, Authentic: true, SuffixOK: true, Parses: true, NextUpdate: d.Upd.Commitment(hash), NextRecovery: d.Rec.Commitment(hash),
			Patches: pd, Origin: jsonString(origin), Label: "create"}
		op := w.newOp(d, operation.TypeCreate, req, m)
		d.Create = op
		w.parseBack(op, v, nil, nil, d.Upd, d.Rec, pd, origin, 0, 0)
		w.submit(op)

		if op.Accepted && d.Suffix != "" && (w.prop == "C20") {
			w.longFormCheck(d, op)
		}

		return
	}

	if d.Suffix == "" {
		return
	}

	// the current protocol version may have retired this DID's key type: its controller cannot submit any more
	if !w.keyTypeEnabled(d.KeyType) {
		k.Count("probe:key-type-retired-by-current-version")

		return
	}

	// after a deactivate the client keeps trying (C04: intake must refuse once the deactivate has been applied)
	typ := operation.TypeUpdate

	switch x := k.Draw(20, "client.optype"); {
	case x < 12:
		typ = operation.TypeUpdate
	case x < 17:
		typ = operation.TypeRecover
	default:
		typ = operation.TypeDeactivate
	}

	if w.prop == "C04" && !d.Dead && len(d.Ops) >= 2 && k.Draw(2, "client.deactivate-now") == 0 {
		typ = operation.TypeDeactivate
	}

	if d.Dead && typ == operation.TypeDeactivate {
		// a second deactivate with the same key would be byte-identical to the first (requests identify operations here)
		typ = operation.TypeRecover
	}

	// hash migration: now and then the controller builds the operation under the protocol's other algorithm (delta hash
	// and next commitments); the reveal value keeps the algorithm of the commitment it opens
	opHash := d.updAlg
	if typ != operation.TypeUpdate {
		opHash = d.recAlg
	}

	revealAlg := opHash

	if k.Draw(5, "client.otherhash") == 0 {
		opHash = simenv.SHA2_256 + simenv.SHA2_512 - opHash
		k.Count("probe:operation-under-the-other-hash-algorithm")
	}

	spec := &workload.OpSpec{Type: typ, Suffix: d.Suffix, Hash: opHash, RevealHash: revealAlg}
	m := &refmodel.Op{Type: refmodel.OpType(typ), Authentic: true, SuffixOK: true, Parses: true, Label: string(typ)}

	// anchoring window: mostly generous (operations must normally survive queueing), sometimes tight
	now := int64(w.ledgerNow())
	hugeWindow := false

	switch k.Draw(6, "client.window") {
	case 0:
		spec.From = now - int64(k.Draw(3, "client.from"))
	case 1:
		spec.From = now - int64(k.Draw(3, "client.from"))
		spec.Until = now + int64(5+k.Draw(300, "client.until"))
	case 2:
		// a window that "never" closes, written with a very large number (beyond 2^53 a JSON number is no longer exact:
		// the builder must either refuse such a window or produce a request that parses back to exactly it)
		if k.Draw(6, "client.window.huge") == 0 {
			spec.From = now - 1
			spec.Until = []int64{1<<63 - 1, 1<<53 + 1, 1790000000123456789}[k.Draw(3, "client.window.huge.which")]
			hugeWindow = true
		}
	}

	if w.useUnpub && spec.Until != 0 {
		spec.Until = now + 100000 // with an unpublished store an expired operation would linger; keep those runs simple
	}

	if w.useUnpub && spec.From != 0 && spec.Until == 0 {
		spec.From = 0
	}

	m.From, m.Until = spec.From, spec.Until

	var pd []workload.PatchDesc

	var nu, nr *workload.Key

	compact := false

	switch typ {
	case operation.TypeUpdate:
		spec.SignKey = d.Upd
		nu = w.newKey(d)
		spec.NextUpdate = nu
		pd = w.genPatches(false)

		// with the size limit close: a service entry full of large numbers, which the client will spell compactly
		if w.tightOps && k.Draw(2, "client.bignumbers") == 0 {
			pd = []workload.PatchDesc{{Kind: workload.AddSvc, IDs: []string{workload.SvcIDs()[0]}, Mark: "w" + w.nextMark()}}
			compact = true
		}
	case operation.TypeRecover:
		spec.SignKey = d.Rec
		nu, nr = w.newKey(d), w.newKey(d)
		spec.NextUpdate, spec.NextRecovery = nu, nr
		spec.AnchorOrigin = originValue(w.mark)
		w.nextMark()
		m.Origin = jsonString(spec.AnchorOrigin)
		pd = w.genPatches(false)

		if k.Draw(3, "client.opaque") == 0 {
			spec.OpaqueDocument, pd = w.genOpaque()
		}
	default:
		spec.SignKey = d.Rec
	}

	if spec.OpaqueDocument == "" {
		spec.Patches, _ = workload.ToPatches(pd)
	}

	m.Patches = pd
	m.RevealCommit = spec.SignKey.Commitment(revealAlg)

	if nu != nil {
		m.NextUpdate = nu.Commitment(opHash)
	}

	if nr != nil {
		m.NextRecovery = nr.Commitment(opHash)
	}

	req, err := workload.Build(spec)
	if err != nil {
		if hugeWindow {
			k.Count("probe:builder-refused-inexact-window")

			return // a window that cannot be written exactly as a JSON number may be refused
		}

		if hasEmptyList(spec.OpaqueDocument) {
			k.Count("probe:builder-refused-empty-list")

			return
		}

		w.fail("C11", "builder/valid-input-refused", "the client request builder refused valid input: "+err.Error())

		return
	}

	op := w.newOp(d, typ, req, m)
	op.hash, op.revealHash = opHash, revealAlg
	op.Compact = compact
	w.parseBack(op, v, spec.SignKey, nil, nu, nr, pd, spec.AnchorOrigin, spec.From, spec.Until)

	if spec.From != 0 || spec.Until != 0 {
		for _, vv := range w.versions {
			until := spec.Until
			if spec.From != 0 && until == 0 {
				until = refmodel.SatAdd(spec.From, refmodel.DeltaOf(vv.P.MaxOperationTimeDelta))
			}

			w.expectedWindows[[2]int64{spec.From, until}] = true
		}
	}

	w.submit(op)

	if !op.Accepted {
		return
	}

	// with an unpublished-operation store the node shows accepted operations at once: asked at the same moment by its
	// short form and by its long form, the DID must show the same keys and services
	if w.prop == "C20" && w.useUnpub && d.LongForm != "" {
		// (both questions must see the same stores: other tasks run while a resolution waits for the store)
		state := func() string {
			n := 0
			for _, o := range w.unpub.Ops[d.Suffix] {
				n += len(o.OperationRequest)
			}

			return fmt.Sprintf("%d/%d/%d/%d/%v", w.store.PutN, len(w.store.Ops[d.Suffix]), len(w.unpub.Ops[d.Suffix]), n, w.proto.CurrentVersion().P.GenesisTime)
		}

		before := state()
		sc, sm := w.get(bNS + ":" + d.Suffix)
		lc, lm := w.get(d.LongForm)

		if sc == http.StatusOK && lc == http.StatusOK && before == state() {
			summary := func(m map[string]interface{}) string {
				doc, _ := m["didDocument"].(map[string]interface{})

				var parts []string

				for _, sec := range []string{"verificationMethod", "service"} {
					l, _ := doc[sec].([]interface{})
					for _, e := range l {
						em, _ := e.(map[string]interface{})
						id, _ := em["id"].(string)

						if i := strings.LastIndex(id, "#"); i >= 0 {
							id = id[i:]
						}

						if sec == "service" {
							parts = append(parts, id+"="+workload.SvcMark(em))
						} else {
							parts = append(parts, id+"="+externalKeyShown(em))
						}
					}
				}

				return strings.Join(parts, " ")
			}

			if a, b := summary(sm), summary(lm); a != b {
				w.fail("C20", "pending/long-vs-short-form", fmt.Sprintf("did%d with pending operations: the short form shows [%s], the long form shows [%s] at the same moment", d.Idx, a, b))
			}

			k.Count("probe:pending-long-and-short-form-agree")
		}
	}

	// the client's own view of its keys moves on
	switch typ {
	case operation.TypeUpdate:
		d.Upd, d.updAlg = nu, opHash
	case operation.TypeRecover:
		d.Upd, d.Rec, d.updAlg, d.recAlg = nu, nr, opHash, opHash
	default:
		d.Dead = true
	}

	// Byzantine follow-ups for the intake half of C12
	if w.prop == "C12" && typ != operation.TypeDeactivate && k.Draw(2, "byz.follow") == 0 {
		w.byzantineIntake(d)
	}
}

// onRemove: the cut rules of C16, with the operations arriving through the document handler. Versions are compared
// by the protocol version that the queue label denotes (the label is whatever the handler handed to the writer).
func (w *bWorld) onRemove(items []simenv.QItem, _ uint, before []simenv.QItem) {
	if len(items) == 0 {
		return
	}

	canon := func(label uint64) uint64 {
		v, err := w.proto.Get(label)
		if err != nil {
			return label
		}

		return v.Protocol().GenesisTime
	}

	if uint(len(items)) > w.maxOps {
		w.fail("C16", "cut/too-large", fmt.Sprintf("cut of %d operations exceeds MaxOperationCount %d", len(items), w.maxOps))
	}

	for _, it := range items[1:] {
		if canon(it.Version) != canon(items[0].Version) {
			w.fail("C16", "cut/mixed-versions", fmt.Sprintf("one cut holds operations accepted under protocol versions %d and %d", canon(items[0].Version), canon(it.Version)))

			break
		}
	}

	if uint(len(items)) < w.maxOps {
		boundary := len(before) > len(items) && canon(before[len(items)].Version) != canon(items[0].Version)
		forced := w.passKind == "timeout" || w.passKind == "startup"

		if !boundary && !forced {
			w.fail("C16", "cut/underfull", fmt.Sprintf("cut of %d < max %d on a %s pass with no protocol-version boundary behind it (queue had %d; queue labels %d.. next %d)",
				len(items), w.maxOps, w.passKind, len(before), items[0].Version, before[len(items)%len(before)].Version))
		}
	}
}

func (w *bWorld) faultsOffAndIdle() bool { return w.faultsOff && len(w.q.Model) == 0 && !w.q.HasInFl }

func (w *bWorld) newOp(d *bDID, typ operation.Type, req []byte, m *refmodel.Op) *bOp {
	op := &bOp{ID: len(w.ops), DID: d, Type: typ, Req: req, Key: simenv.ReqKey(req), M: m}
	m.ID = op.ID
	w.ops = append(w.ops, op)
	d.Ops = append(d.Ops, op)

	if w.byKey[op.Key] == nil {
		w.byKey[op.Key] = op
	}

	return op
}

// deadPerModel: according to the reference model over what the node has stored, is the DID deactivated?
func (w *bWorld) deadPerModel(d *bDID) bool {
	st, err := refmodel.Resolve(w.storedModelOps(d))

	return err == nil && st.Deactivated
}

// submit sends the request through the REST update handler and applies the intake oracles.
func (w *bWorld) submit(op *bOp) {
	k := w.k
	d := op.DID

	mustRefuse := d.Suffix != "" && op.Type != operation.TypeCreate && w.deadPerModel(d)
	op.Version = w.proto.CurrentVersion().P.GenesisTime
	op.M.MaxDelta = refmodel.DeltaOf(w.proto.CurrentVersion().P.MaxOperationTimeDelta)

	// the unpublished copies this DID had before the submission (C15: a refused operation leaves no trace - it must not
	// take anybody else's pending copy with it either)
	pendingBefore := map[string]int{}
	for _, e := range w.unpub.Ops[d.Suffix] {
		pendingBefore[simenv.ReqKey(e.OperationRequest)]++
	}

	putsBefore, cleanupsBefore := w.store.PutN, w.unpub.DeleteAllN

	if op.Compact {
		op.Req = bytes.ReplaceAll(op.Req, []byte(workload.BigNumber), []byte("1e20"))
		k.Count("probe:request-shorter-than-its-canonical-form")
	}

	// now and then the request is exactly as large as the protocol allows (sent with trailing whitespace)
	if max := int(w.proto.CurrentVersion().P.MaxOperationSize); op.Byz == "" && !op.Dup && len(op.Req)+1 < max && k.Draw(15, "submit.maxsize") == 0 {
		pad := max - len(op.Req)
		lead := []string{"", "\n", " \r\n\t"}[k.Draw(3, "submit.maxsize.lead")]

		if len(lead) >= pad {
			lead = ""
		}

		op.Req = append(append([]byte(lead), op.Req...), []byte(strings.Repeat(" ", pad-len(lead)-1)+"\n")...)
		k.Count("probe:request-of-exactly-maximum-size")
	}

	sizeAtSubmission := len(op.Req)

	code, body := w.post(op.Req)
	op.Status = code
	op.Accepted = code == http.StatusOK

	if !op.Accepted {
		op.Err = strings.TrimSpace(string(body))
	}

	k.Tr.Logf("  %s submit op%d %s did%d %s -> %d %s", k.Cur(), op.ID, op.Type, d.Idx, op.Byz, code, short40(op.Err))

	if len(w.samples) < 16 {
		w.samples = append(w.samples, fmt.Sprintf("submit op%d %s did%d window=(%d,%d) %s -> %d", op.ID, op.Type, d.Idx, op.M.From, op.M.Until, op.Byz, code))
	}

	if op.Type == operation.TypeCreate && op.Accepted {
		// (a retried create accepted under another protocol version is another DID: keep the first response)
		if d.CreateResp == nil {
			var m map[string]interface{}
			_ = json.Unmarshal(body, &m)
			d.CreateResp = m
		}

		// the suffix is the hash of the suffix data under the first algorithm of the version that accepted the create
		for _, vv := range w.versions {
			if vv.P.GenesisTime == op.Version {
				if parsed, err := vv.Parser.ParseCreateOperation(op.Req, true); err == nil {
					// the DID suffix is the multihash of the canonical suffix data under the accepting version's first algorithm -
					// computed here from the request itself, independently of the library's suffix helpers
					var cr struct {
						SuffixData map[string]interface{} `json:"suffixData"`
					}

					if json.Unmarshal(op.Req, &cr) == nil && cr.SuffixData != nil {
						if own, herr := hashing.CalculateModelMultihash(cr.SuffixData, vv.P.MultihashAlgorithms[0]); herr == nil && own != parsed.UniqueSuffix {
							w.fail("C20", "create/suffix", fmt.Sprintf("did%d: the node derives the DID suffix %s for a create whose suffix data hashes to %s (suffix data %v)", d.Idx, parsed.UniqueSuffix, own, cr.SuffixData))
						}
					}

					// (a retried create accepted under another protocol version may hash to another suffix: a different DID)
					op.Suffix = parsed.UniqueSuffix
					if d.Suffix == "" {
						d.Suffix = parsed.UniqueSuffix
					}
				}
			}
		}
	}

	// C04 (intake half): once the deactivate has been applied, the handler refuses further operations
	if mustRefuse && op.Accepted {
		w.fail("C04", "intake/accepted-after-deactivate", fmt.Sprintf("did%d resolves as deactivated at this node, yet a %s for it was accepted", d.Idx, op.Type))
	}

	if mustRefuse {
		k.Count("probe:operation-after-deactivate")
		w.nontrivial = true
	}

	// C15 (intake half): a refused operation leaves no trace in queue or unpublished store
	if !op.Accepted && !op.Dup {
		if w.inQueue(op.Key) {
			w.fail("C15", "intake/refused-but-queued", fmt.Sprintf("op%d was refused (%d %s) but is in the batch queue", op.ID, code, short40(op.Err)))
		}

		if w.inUnpub(op) {
			w.fail("C15", "intake/refused-but-unpublished", fmt.Sprintf("op%d was refused (%d %s) but is in the unpublished-operation store", op.ID, code, short40(op.Err)))
		}

		// pending copies of OTHER operations of this DID are still there, unless the observer has stored them meanwhile
		pendingNow := map[string]int{}
		for _, e := range w.unpub.Ops[d.Suffix] {
			pendingNow[simenv.ReqKey(e.OperationRequest)]++
		}

		for key, n := range pendingBefore {
			// (only when the observer stored nothing and cleaned nothing up meanwhile: processing a transaction cleans pending
			// copies up - the clean-up of a transaction stored just before this submission may still be under way, and a store
			// keyed by DID removes whatever is pending for the DID)
			if o := w.byKey[key]; key != op.Key && pendingNow[key] < n && o != nil && !w.anyStoredOrReplayed(key) && w.store.PutN == putsBefore && w.unpub.DeleteAllN == cleanupsBefore {
				w.fail("C15", "intake/refusal-removed-pending-copy", fmt.Sprintf("op%d (%s did%d) was refused (%d %s); the unpublished copy of op%d (%s), which is not anchored yet, disappeared with it",
					op.ID, op.Type, d.Idx, code, short40(op.Err), o.ID, o.Type))
			}
		}

		k.Count("probe:refused-at-intake")
	}

	// C11: an honest request must be accepted unless the node has a reason the harness knows about: the DID
	// does not exist (yet) or is deactivated in the node's view (stored + unpublished operations), or the
	// request's window is not open on the server clock. (Injected queue/store faults answer 500, not 400.)
	if op.Byz == "" && !op.Accepted && code == http.StatusBadRequest && !mustRefuse {
		legit := false

		if op.Type != operation.TypeCreate {
			view := w.storedModelOps(d)

			for _, e := range w.unpub.Ops[d.Suffix] {
				if o := w.byKey[simenv.ReqKey(e.OperationRequest)]; o != nil && w.useUnpub {
					m := *o.M
					m.Time, m.Published = e.TransactionTime, false
					view = append(view, &m)
				}
			}

			st, err := refmodel.Resolve(view)
			legit = err != nil || st.Deactivated
		}

		if op.M.From != 0 || op.M.Until != 0 {
			now := int64(w.ledgerNow())
			until := op.M.Until

			if op.M.From != 0 && until == 0 {
				until = op.M.From + op.M.MaxDelta
			}

			if now < op.M.From || now > until {
				legit = true
			}
		}

		// larger than the protocol admits
		if uint(sizeAtSubmission) > w.proto.CurrentVersion().P.MaxOperationSize {
			legit = true
			k.Count("probe:refused-for-its-size")
		}

		// a retried request may arrive after a protocol switch to a version that does not know one of its patch actions
		if usesAKA(op) && !w.akaEnabled() {
			legit = true
			k.Count("probe:retry-refused-by-newer-version")
		}

		if op.Type != operation.TypeCreate && !w.keyTypeEnabled(d.KeyType) {
			legit = true
			k.Count("probe:retry-refused-by-newer-version")
		}

		if !legit && w.prop == "C20" {
			// (C20: a valid operation submitted through the document handler must end up in the resolved state; one that the
			// node refuses for no reason never will)
			w.fail("C20", "intake/valid-operation-refused", fmt.Sprintf("client-built %s (key type %s, hash %d) refused: %s", op.Type, d.KeyType, d.Hash, op.Err))
		}

		if !legit {
			w.fail("C11", "intake/honest-request-refused", fmt.Sprintf("client-built %s (key type %s, hash %d) refused: %s", op.Type, d.KeyType, d.Hash, op.Err))
		}
	}

	// duplicate request (lost response, client retries)
	if op.Accepted && op.Byz == "" && !op.Dup && w.fault("req.dup") {
		dup := w.newOp(d, op.Type, op.Req, cloneModel(op.M))
		dup.Dup = true
		dup.M.Label += "/dup"
		w.nontrivial = true
		w.submit(dup)
	}
}

func jsonString(v interface{}) string {
	b, _ := json.Marshal(v)

	return string(b)
}

func cloneModel(m *refmodel.Op) *refmodel.Op {
	c := *m

	return &c
}

func short40(s string) string {
	if len(s) > 70 {
		return s[:70]
	}

	return s
}

func (w *bWorld) inQueue(key string) bool {
	for _, it := range w.q.Model {
		if it.Key == key {
			return true
		}
	}

	for _, it := range w.q.InFlight {
		if it.Key == key {
			return true
		}
	}

	return false
}

// replayed: has somebody anchored a copy of this transaction's anchor string (its operations then also
// arrive - and are cleaned up - through that copy)?
func (w *bWorld) replayed(t *bTxn) bool {
	for _, o := range w.txns {
		if o.ReplayOf == t.Idx {
			return true
		}
	}

	return false
}

func (w *bWorld) uniqueRequest(op *bOp) bool {
	n := 0

	for _, o := range w.ops {
		if o.Key == op.Key {
			n++
		}
	}

	return n == 1
}

func (w *bWorld) unpubConfigured(t operation.Type) bool {
	for _, x := range w.unpubTypes {
		if x == t {
			return true
		}
	}

	return false
}

// anyStoredOrReplayed: has ANY submission of this request (byte-identical requests - a retry, a deterministic re-build -
// share one key) been stored by the observer, or been part of a replayed transaction? Its pending copy may then be gone.
func (w *bWorld) anyStoredOrReplayed(key string) bool {
	for _, o := range w.ops {
		if o.Key == key && (o.Stored > 0 || w.replayedOp(o)) {
			return true
		}
	}

	return false
}

// replayedOp: was the operation part of a transaction whose anchor string somebody anchored again (its unpublished copy
// is then cleaned up through that copy as well)?
func (w *bWorld) replayedOp(op *bOp) bool {
	for _, ti := range op.Txns {
		if ti < len(w.txns) && w.replayed(w.txns[ti]) {
			return true
		}
	}

	return false
}

func (w *bWorld) inUnpub(op *bOp) bool {
	for _, e := range w.unpub.Ops[op.DID.Suffix] {
		if simenv.ReqKey(e.OperationRequest) == op.Key {
			return true
		}
	}

	return false
}

// parseBack (C11): the real parser returns exactly what the caller supplied to the client library.
func (w *bWorld) parseBack(op *bOp, v *simenv.Version, signKey, _ *workload.Key, nu, nr *workload.Key, pd []workload.PatchDesc, origin interface{}, from, until int64) {
	if w.prop != "C11" && w.prop != "C20" {
		return
	}

	d := op.DID
	hash, revealHash := d.Hash, d.Hash

	if op.hash != 0 {
		hash, revealHash = op.hash, op.revealHash
	}

	if uint(len(op.Req)) > v.P.MaxOperationSize {
		return // (larger than the protocol admits: the node will refuse it, and so does the parser)
	}

	mop, err := v.Parser.ParseOperation(bNS, op.Req, true)
	if err != nil {
		w.fail("C11", "parse-back/error", fmt.Sprintf("client-built %s (key type %s, hash %d) does not parse: %v", op.Type, d.KeyType, hash, err))

		return
	}

	bad := func(what string, got, want interface{}) {
		w.fail("C11", "parse-back/"+what, fmt.Sprintf("client-built %s (key type %s): %s parsed back as %v, supplied %v", op.Type, d.KeyType, what, got, want))
	}

	if op.Type != operation.TypeCreate && mop.UniqueSuffix != d.Suffix {
		bad("suffix", mop.UniqueSuffix, d.Suffix)
	}

	if op.Type != operation.TypeDeactivate {
		if mop.Delta == nil || (nu != nil && mop.Delta.UpdateCommitment != nu.Commitment(hash)) {
			bad("update-commitment", mop.Delta, nu.Commitment(hash))

			return
		}

		want, _ := workload.ToPatches(pd)
		gb, _ := json.Marshal(mop.Delta.Patches)
		wb, _ := json.Marshal(want)

		if !jsonEqual(gb, wb) {
			bad("patches", string(gb), string(wb))
		}
	}

	if signKey != nil && mop.RevealValue != signKey.Reveal(revealHash) {
		bad("reveal-value", mop.RevealValue, signKey.Reveal(revealHash))
	}

	switch op.Type {
	case operation.TypeCreate:
		if mop.SuffixData == nil || mop.SuffixData.RecoveryCommitment != nr.Commitment(hash) {
			bad("recovery-commitment", mop.SuffixData, nr.Commitment(hash))
		} else if jsonString(mop.SuffixData.AnchorOrigin) != jsonString(origin) {
			bad("anchor-origin", mop.SuffixData.AnchorOrigin, origin)
		}
	case operation.TypeUpdate:
		sd, err := v.Parser.ParseSignedDataForUpdate(mop.SignedData)
		if err != nil {
			bad("signed-data", err, "parseable")
		} else if sd.AnchorFrom != from || sd.AnchorUntil != until {
			bad("window", [2]int64{sd.AnchorFrom, sd.AnchorUntil}, [2]int64{from, until})
		}
	case operation.TypeRecover:
		sd, err := v.Parser.ParseSignedDataForRecover(mop.SignedData)
		if err != nil {
			bad("signed-data", err, "parseable")
		} else {
			if sd.AnchorFrom != from || sd.AnchorUntil != until {
				bad("window", [2]int64{sd.AnchorFrom, sd.AnchorUntil}, [2]int64{from, until})
			}

			if sd.RecoveryCommitment != nr.Commitment(hash) {
				bad("recovery-commitment", sd.RecoveryCommitment, nr.Commitment(hash))
			}

			if jsonString(sd.AnchorOrigin) != jsonString(origin) {
				bad("anchor-origin", sd.AnchorOrigin, origin)
			}
		}
	case operation.TypeDeactivate:
		sd, err := v.Parser.ParseSignedDataForDeactivate(mop.SignedData)
		if err != nil {
			bad("signed-data", err, "parseable")
		} else if sd.AnchorFrom != from || sd.AnchorUntil != until || sd.DidSuffix != d.Suffix {
			bad("window/suffix", fmt.Sprint(sd.AnchorFrom, sd.AnchorUntil, sd.DidSuffix), fmt.Sprint(from, until, d.Suffix))
		}
	}

	w.k.Count("probe:parse-back-" + d.KeyType.String())
}

// byzantineIntake (C12): requests the client library refuses to build must be refused by intake.
func (w *bWorld) byzantineIntake(d *bDID) {
	k := w.k

	if d.Dead || d.Suffix == "" {
		return
	}

	pd := w.genPatches(false)
	patches, _ := workload.ToPatches(pd)
	raw := &workload.RawSpec{Suffix: d.Suffix, Hash: d.Hash, Patches: patches}
	kind := ""

	switch k.Draw(7, "byz.kind") {
	case 6: // recover whose next UPDATE commitment is the commitment of the recovery key it reveals
		raw.Hash = d.recAlg
		raw.Type, raw.RevealKey = operation.TypeRecover, d.Rec
		raw.NextRecoveryCommit, raw.NextUpdateCommit = w.newKey(d).Commitment(d.recAlg), d.Rec.Commitment(d.recAlg)
		kind = "recover-update-commitment-of-revealed-key"
	case 4: // update re-committing to the key it reveals, the commitment spelt under the protocol's OTHER hash algorithm
		raw.Hash = d.updAlg
		raw.Type, raw.RevealKey, raw.NextUpdateCommit = operation.TypeUpdate, d.Upd, d.Upd.Commitment(simenv.SHA2_256+simenv.SHA2_512-d.updAlg)
		kind = "update-self-loop-across-algorithms"
	case 5: // the same for a recover
		raw.Hash = d.recAlg
		other := simenv.SHA2_256 + simenv.SHA2_512 - d.recAlg
		raw.Type, raw.RevealKey = operation.TypeRecover, d.Rec
		raw.NextRecoveryCommit, raw.NextUpdateCommit = d.Rec.Commitment(other), w.newKey(d).Commitment(other)
		kind = "recover-self-loop-across-algorithms"
	case 0: // update re-committing to the key it reveals
		raw.Type, raw.RevealKey, raw.NextUpdateCommit = operation.TypeUpdate, d.Upd, d.Upd.Commitment(d.Hash)
		kind = "update-self-loop"
	case 1: // recover whose next recovery commitment is the revealed key's
		raw.Type, raw.RevealKey = operation.TypeRecover, d.Rec
		raw.NextRecoveryCommit, raw.NextUpdateCommit = d.Rec.Commitment(d.Hash), w.newKey(d).Commitment(d.Hash)
		kind = "recover-self-loop"
	case 2: // recover with equal update and recovery commitments
		raw.Type, raw.RevealKey = operation.TypeRecover, d.Rec
		c := w.newKey(d).Commitment(d.Hash)
		raw.NextRecoveryCommit, raw.NextUpdateCommit = c, c
		kind = "recover-equal-commitments"
	default: // create with equal update and recovery commitments
		raw.Type = operation.TypeCreate
		c := w.newKey(d).Commitment(d.Hash)
		raw.NextRecoveryCommit, raw.NextUpdateCommit = c, c
		raw.AnchorOrigin = "origin-byz"
		kind = "create-equal-commitments"
	}

	// the self-loop may also be spelt under the other supported hash algorithm: still the same key
	req, err := workload.BuildRaw(raw)
	if err != nil {
		w.fail("HARNESS", "byz-build", err.Error())

		return
	}

	m := &refmodel.Op{Type: refmodel.OpType(raw.Type), Label: "byz/" + kind}
	op := w.newOp(d, raw.Type, req, m)
	op.Byz = kind
	// byzantine requests are not part of the DID's honest history; take them out of the DID's list so the
	// end-to-end model is not asked to predict them unless they were (wrongly) accepted
	w.submit(op)
	w.nontrivial = true
	k.Count("probe:byz-" + kind)

	if op.Accepted {
		w.fail("C12", "intake/"+kind+"-accepted", fmt.Sprintf("intake accepted a %s request (did%d, key type %s, hash %d)", kind, d.Idx, d.KeyType, d.Hash))
	}

	d.Ops = d.Ops[:len(d.Ops)-1]
}

// longFormCheck: create response, long-form resolution before anchoring (C20, second sentence).
func (w *bWorld) longFormCheck(d *bDID, op *bOp) {
	var cr map[string]interface{}
	if json.Unmarshal(op.Req, &cr) != nil {
		return
	}

	delete(cr, "type")

	jcs, err := jcsOf(cr)
	if err != nil {
		return
	}

	d.LongForm = bNS + ":" + d.Suffix + ":" + encoder.EncodeToString(jcs)

	code, m := w.get(d.LongForm)
	if code != http.StatusOK {
		// (a long-form DID is tied to the hash algorithm of the version that was current when it was built)
		if op.Stored == 0 && w.proto.CurrentVersion().P.GenesisTime == op.Version {
			w.fail("C20", "long-form/not-resolvable", fmt.Sprintf("long-form DID of an accepted create does not resolve before anchoring: HTTP %d %v", code, m))
		}

		return
	}

	d.LongResp = m
	w.k.Count("probe:long-form-resolved")
}

// ---------------------------------------------------------------- writer / ledger / observer hooks

func (w *bWorld) beforeHandler(ops []*operation.QueuedOperation) {
	w.curCut = ops
	w.curInfo = nil
	w.wIdx = 0
	w.failAt = -1

	if !w.k.IsInline() && w.fault("cas.werr") {
		w.failAt = w.k.Draw(5, "cas.failpos")
	}
}

func (w *bWorld) afterHandler(c *simenv.HandlerCall) { w.curInfo = c.Info }

func (w *bWorld) onAnchor(t *txn.SidetreeTxn, _ []*operation.Reference) {
	bt := &bTxn{Idx: len(w.txns), Honest: true, ReplayOf: -1}

	if w.curInfo == nil {
		w.fail("HARNESS", "anchor-without-batch", "WriteAnchor without PrepareTxnFiles")

		return
	}

	skip := map[string]int{}
	for _, q := range w.curInfo.AdditionalOperations {
		skip[simenv.ReqKey(q.OperationRequest)]++
	}

	for _, q := range w.curInfo.ExpiredOperations {
		key := simenv.ReqKey(q.OperationRequest)
		skip[key]++

		if op := w.byKey[key]; op != nil {
			w.markExpired(key)
		}
	}

	for _, q := range w.curCut {
		key := simenv.ReqKey(q.OperationRequest)
		if skip[key] > 0 {
			skip[key]--

			continue
		}

		if op := w.nextUnanchored(key); op != nil {
			op.Txns = append(op.Txns, bt.Idx)
			bt.Included = append(bt.Included, op)
		}
	}

	if ad, err := txnprovider.ParseAnchorData(t.AnchorString); err == nil {
		w.byCore[ad.CoreIndexFileURI] = append(w.byCore[ad.CoreIndexFileURI], bt)
		bt.CoreURI = ad.CoreIndexFileURI
	}

	w.txns = append(w.txns, bt)
	w.curCut = nil

	if len(w.samples) < 16 {
		w.samples = append(w.samples, fmt.Sprintf("txn%d t=%d n=%d v=%d included=%s", bt.Idx, t.TransactionTime, t.TransactionNumber, t.ProtocolVersion, bOpIDs(bt.Included)))
	}
}

func bOpIDs(ops []*bOp) string {
	var s []string
	for _, o := range ops {
		s = append(s, fmt.Sprintf("op%d", o.ID))
	}

	return "[" + strings.Join(s, " ") + "]"
}

// nextUnanchored: duplicates of one request share a key; they are anchored one after the other.
func (w *bWorld) nextUnanchored(key string) *bOp {
	for _, op := range w.ops {
		if op.Key == key && op.Accepted && len(op.Txns) == 0 && !op.Expired {
			return op
		}
	}

	return nil
}

func (w *bWorld) markExpired(key string) {
	for _, op := range w.ops {
		if op.Key == key && op.Accepted && len(op.Txns) == 0 && !op.Expired {
			op.Expired = true
			w.k.Count("probe:expired-in-queue")

			return
		}
	}
}

// onPut is the C15 oracle on durable state: one Put per transaction, one stamped operation per suffix.
func (w *bWorld) onPut(ops []*operation.AnchoredOperation) {
	if len(ops) == 0 {
		w.fail("C15", "store/empty-put", "the transaction processor stored an empty batch")

		return
	}

	// which transaction?
	var lt *txn.SidetreeTxn

	var bt *bTxn

	for i := range w.ledger.Txns {
		t := &w.ledger.Txns[i]
		if t.TransactionTime == ops[0].TransactionTime && t.TransactionNumber == ops[0].TransactionNumber {
			lt, bt = t, w.txns[i]
		}
	}

	if lt == nil {
		w.fail("C15", "store/stamp", fmt.Sprintf("stored operations carry (time %d, number %d), which is no transaction of the ledger", ops[0].TransactionTime, ops[0].TransactionNumber))

		return
	}

	bt.Puts++
	seen := map[string]bool{}

	for _, op := range ops {
		if seen[op.UniqueSuffix] {
			w.fail("C15", "store/duplicate-suffix", fmt.Sprintf("txn%d: two operations stored for suffix %s", bt.Idx, op.UniqueSuffix))
		}

		seen[op.UniqueSuffix] = true

		if op.TransactionTime != lt.TransactionTime || op.TransactionNumber != lt.TransactionNumber || op.ProtocolVersion != lt.ProtocolVersion {
			w.fail("C15", "store/stamp", fmt.Sprintf("txn%d (t=%d n=%d v=%d): stored %s stamped t=%d n=%d v=%d", bt.Idx, lt.TransactionTime, lt.TransactionNumber, lt.ProtocolVersion,
				op.Type, op.TransactionTime, op.TransactionNumber, op.ProtocolVersion))
		}

		if op.CanonicalReference != lt.CanonicalReference || !reflect.DeepEqual(op.EquivalentReferences, lt.EquivalentReferences) {
			w.fail("C15", "store/references", fmt.Sprintf("txn%d has canonical reference %q and equivalent references %v; stored %s carries %q and %v", bt.Idx,
				lt.CanonicalReference, lt.EquivalentReferences, op.Type, op.CanonicalReference, op.EquivalentReferences))
		}
	}

	src := bt
	if bt.ReplayOf >= 0 {
		src = w.txns[bt.ReplayOf]
	}

	if src.Honest || bt.ReplayOf >= 0 {
		want := map[string]bool{}
		for _, o := range src.Included {
			sfx := o.DID.Suffix
			if o.Suffix != "" {
				sfx = o.Suffix
			}

			want[sfx+"/"+o.Key] = true
		}

		got := map[string]bool{}
		for _, op := range ops {
			got[op.UniqueSuffix+"/"+simenv.ReqKey(op.OperationRequest)] = true
		}

		if !reflect.DeepEqual(got, want) {
			w.fail("C15", "store/content", fmt.Sprintf("txn%d: stored %d operations, the batch held %d (one per suffix expected, identical requests): stored %v, batch %v; first stored request: %s", bt.Idx, len(got), len(want), got, want, ops[0].OperationRequest))
		}
	}

	if bt.Puts > bt.Deliveries {
		w.fail("C15", "store/several-writes", fmt.Sprintf("txn%d was delivered %d time(s) but stored with %d separate writes", bt.Idx, bt.Deliveries, bt.Puts))
	}

	// bookkeeping for the end-to-end model
	if bt.ReplayOf < 0 {
		for _, o := range bt.Included {
			o.Stored++
		}
	}

	w.k.Count("probe:txn-stored")
}

// env: what the outside world may do now.
func (w *bWorld) env() []simkit.Action {
	var a []simkit.Action

	k := w.k

	if len(w.monCh) == 0 && len(w.toCh) == 0 && w.pendingTick == "" && w.ticks < 600 {
		a = append(a,
			simkit.Action{Label: "tick timeout", Do: func() { w.sendTick("timeout") }},
			simkit.Action{Label: "tick monitor", Do: func() { w.sendTick("monitor") }})
	}

	if w.nextDelivery() >= 0 && len(w.sub.Ch) == 0 && !k.IsParked("O") {
		a = append(a, simkit.Action{Label: "deliver", Do: w.deliver})
	}

	if w.cursor2 < len(w.ledger.Txns) && len(w.sub2.Ch) == 0 && !k.IsParked("O2") {
		a = append(a, simkit.Action{Label: "deliver to replica", Do: w.deliver2})
	}

	if w.clockMoves < 40 {
		a = append(a, simkit.Action{Label: "clock", Do: func() {
			ds := []time.Duration{time.Second, 3 * time.Second, 11 * time.Second, 40 * time.Second}
			d := ds[k.T.Draw(len(ds), "clock.jump")]
			w.clockMoves++
			k.Tr.Logf("  clock +%v", d)
			time.Sleep(d)
		}})
	}

	if w.rates["obs.crash"] > 0 && !w.faultsOff && w.crashes < 2 && len(w.inFlight) > 0 && k.IsParked("O") {
		a = append(a, simkit.Action{Label: "observer crash", Do: w.crashObserver})
	}

	if w.rates["byz.txn"] > 0 && !w.faultsOff && w.byzTxns < 6 && len(w.ledger.Txns) > 0 {
		a = append(a, simkit.Action{Label: "byzantine txn", Do: w.byzantineTxn})
	}

	// the ledger hands a transaction whose processing failed to the SAME observer instance once more (catch-up)
	if w.redeliveries < 3 && len(w.inFlight) == 0 && len(w.sub.Ch) == 0 && !k.IsParked("O") {
		for _, t := range w.txns {
			if t.Honest && t.Delivered && t.Faulted && t.Puts == 0 && len(t.Included) > 0 {
				t := t
				a = append(a, simkit.Action{Label: "redeliver failed txn", Do: func() {
					w.redeliveries++
					t.Delivered, t.Faulted = false, false
					k.Count("fault:redelivery-of-failed-txn")
					k.Tr.Logf("  txn%d, whose processing failed, will be delivered again", t.Idx)
				}})

				break
			}
		}
	}

	return a
}

func (w *bWorld) sendTick(kind string) {
	w.ticks++
	w.pendingTick = kind
	w.k.SetCur("W")

	if kind == "timeout" {
		w.toCh <- time.Time{}
	} else {
		w.monCh <- time.Time{}
	}
}

func (w *bWorld) nextDelivery() int {
	for i, t := range w.txns {
		if !t.Delivered {
			return i
		}
	}

	return -1
}

// deliver hands the next one or more transactions to the observer (batched, sometimes out of order).
func (w *bWorld) deliver() {
	k := w.k

	var idx []int

	for i, t := range w.txns {
		if !t.Delivered {
			idx = append(idx, i)
		}
	}

	n := 1 + k.T.Draw(minInt(3, len(idx)), "deliver.count")
	if w.faultsOff {
		n = len(idx)
	}

	pick := idx[:n]

	if len(idx) > 1 && w.fault("deliver.reorder") {
		// out of order: the newest pending transaction first
		pick = append([]int{idx[len(idx)-1]}, idx[:n-1]...)
		w.nontrivial = true
	}

	var batch []txn.SidetreeTxn

	for _, i := range pick {
		w.txns[i].Delivered = true
		w.txns[i].Deliveries++
		w.obsQueue = append(w.obsQueue, w.txns[i])
		w.inFlight = append(w.inFlight, w.txns[i])
		batch = append(batch, w.ledger.Txns[i])
	}

	k.Tr.Logf("  deliver txns %v", pick)
	w.curObs = nil
	k.SetCur("O")
	w.sub.Ch <- batch
}

// deliver2: the replica node gets the ledger in order, in notifications of its own size.
func (w *bWorld) deliver2() {
	k := w.k
	n := 1 + k.T.Draw(minInt(4, len(w.ledger.Txns)-w.cursor2), "deliver2.count")

	if w.faultsOff {
		n = len(w.ledger.Txns) - w.cursor2
	}

	batch := append([]txn.SidetreeTxn(nil), w.ledger.Txns[w.cursor2:w.cursor2+n]...)
	w.cursor2 += n
	k.SetCur("O2")
	w.sub2.Ch <- batch
}

func minInt(a, b int) int {
	if a < b {
		return a
	}

	return b
}

// crashObserver: the observer node dies in the middle of a notification (its goroutine never runs again),
// loses everything that is not durable, and a new observer instance starts; the ledger redelivers the
// notification that was not completed (at-least-once delivery). Durable: CAS, ledger, stores.
func (w *bWorld) crashObserver() {
	k := w.k
	w.crashes++
	n := k.Kill("O")
	k.Count("fault:observer-crash")
	w.nontrivial = true
	k.Tr.Logf("  observer crashed mid-notification (%d parked call(s) abandoned); redelivering txns %v", n, txnIdxs(w.inFlight))

	for _, t := range w.inFlight {
		t.Delivered = false
	}

	// whatever the dead instance had not started is forgotten with it
	var rest []*bTxn

	for _, t := range w.obsQueue {
		pending := false

		for _, f := range w.inFlight {
			pending = pending || f == t
		}

		if !pending {
			rest = append(rest, t)
		}
	}

	w.obsQueue = rest
	w.inFlight = nil
	w.curObs = nil

	w.obs.Stop()
	w.sub = w.ledger.Subscribe()
	w.obs = observer.New(&observer.Providers{Ledger: simenv.SubLedger{S: w.sub}, ProtocolClientProvider: w.proto})
	k.SetCur("O")
	w.obs.Start()
	k.Settle()
}

func txnIdxs(ts []*bTxn) []int {
	var out []int
	for _, t := range ts {
		out = append(out, t.Idx)
	}

	return out
}

// byzantineTxn: somebody else writes to the ledger.
func (w *bWorld) byzantineTxn() {
	k := w.k
	w.byzTxns++
	w.nontrivial = true

	bt := &bTxn{Idx: len(w.txns), ReplayOf: -1}
	v := w.proto.CurrentVersion().P.GenesisTime

	kind := k.T.Draw(6, "byz.txn.kind")

	// a damaged copy of a real core index file (gzip stream cut short, or a bit flipped in its body) under its own address
	if kind == 5 {
		kind = 0

		for i := len(w.txns) - 1; i >= 0; i-- {
			t := w.txns[i]
			if !t.Honest || len(t.Included) == 0 {
				continue
			}

			ad, err := txnprovider.ParseAnchorData(w.ledger.Txns[i].AnchorString)
			if err != nil {
				break
			}

			orig := w.cas.Files[ad.CoreIndexFileURI]
			if len(orig) < 30 {
				break
			}

			damaged := append([]byte(nil), orig...)

			switch k.T.Draw(3, "byz.txn.damage") {
			case 0:
				damaged = damaged[:len(damaged)-4] // the ISIZE trailer is missing
			case 1:
				damaged = damaged[:len(damaged)-1-k.T.Draw(len(damaged)/2, "byz.txn.cut")]
			default:
				damaged[len(damaged)/2] ^= 0x40 // CRC mismatch (or a broken deflate stream)
			}

			bt.Byz = "damaged-core-index"
			w.ledger.OnAnchor = nil
			w.ledger.Append(fmt.Sprintf("%d.%s", ad.NumberOfOperations, w.cas.Put(damaged)), nil, w.ledger.Txns[i].ProtocolVersion)
			kind = -1

			break
		}
	}

	switch kind {
	case -1:
	case 4: // a valid-looking transaction of a namespace this node does not serve
		bt.Byz = "unknown-namespace"
		w.ledger.OnAnchor = nil

		src := ""
		if len(w.ledger.Txns) > 0 {
			src = w.ledger.Txns[0].AnchorString
		}

		w.ledger.AppendNS("did:other", src, v)
	case 0:
		bt.Byz = "garbage-anchor"
		w.ledger.OnAnchor = nil
		w.ledger.Append("this is not an anchor string", nil, v)
	case 1:
		bt.Byz = "missing-content"
		w.ledger.OnAnchor = nil
		w.ledger.Append("3."+simenv.Address([]byte(fmt.Sprintf("nothing-%d", bt.Idx))), nil, v)
	case 2:
		bt.Byz = "zero-count"
		w.ledger.OnAnchor = nil
		w.ledger.Append("0."+simenv.Address([]byte("x")), nil, v)
	default:
		// a copy of an earlier honest anchor string: valid, and anchored again
		var honest []int

		for i, t := range w.txns {
			if t.Honest && len(t.Included) > 0 {
				honest = append(honest, i)
			}
		}

		if len(honest) == 0 {
			bt.Byz = "garbage-anchor"
			w.ledger.OnAnchor = nil
			w.ledger.Append("1", nil, v)

			break
		}

		src := honest[k.T.Draw(len(honest), "byz.txn.src")]
		bt.Byz = fmt.Sprintf("replay-of-txn%d", src)
		bt.ReplayOf = src
		w.ledger.OnAnchor = nil
		w.ledger.Append(w.ledger.Txns[src].AnchorString, nil, w.ledger.Txns[src].ProtocolVersion)

		if ad, err := txnprovider.ParseAnchorData(w.ledger.Txns[src].AnchorString); err == nil {
			w.byCore[ad.CoreIndexFileURI] = append(w.byCore[ad.CoreIndexFileURI], bt)
			bt.CoreURI = ad.CoreIndexFileURI
		}
	}

	w.ledger.OnAnchor = w.onAnchor
	w.txns = append(w.txns, bt)
	k.Count("fault:byz.txn")
	k.Tr.Logf("  byzantine txn%d %s", bt.Idx, bt.Byz)
}

func (w *bWorld) check() {
	if w.pendingTick != "" {
		ch := w.monCh
		if w.pendingTick == "timeout" {
			ch = w.toCh
		}

		if len(ch) == 0 {
			w.passKind = w.pendingTick
			w.pendingTick = ""
		}
	}

	// the observer is back in its select: the notification it was working on is complete
	if len(w.inFlight) > 0 && len(w.sub.Ch) == 0 && !w.k.IsParked("O") {
		w.inFlight = nil
	}

	// C05 (intake half): every window handed to the server-time validator is an effective window of a submitted operation
	for ; w.tvSeen < len(w.tv.Calls); w.tvSeen++ {
		c := w.tv.Calls[w.tvSeen]
		if c[0] == 0 && c[1] == 0 {
			continue
		}

		if !w.expectedWindows[c] {
			w.fail("C05", "intake/validator-window", fmt.Sprintf("the server-time validator was handed the window (%d, %d), which is not the effective window (anchorFrom, anchorUntil or anchorFrom+maxOperationTimeDelta) of any submitted operation", c[0], c[1]))
		}

		w.k.Count("probe:validator-window-checked")
	}

	h := fnv.New64a()
	fmt.Fprintf(h, "%d|%v|%d|", len(w.q.Model), w.q.HasInFl, len(w.txns))

	for _, op := range w.ops {
		fmt.Fprintf(h, "%v%d%d,", op.Accepted, len(op.Txns), op.Stored)
	}

	w.stateSeq = w.stateSeq*1099511628211 ^ h.Sum64()
}

// ---------------------------------------------------------------- end of run

func (w *bWorld) livenessPhase() {
	k := w.k
	w.faultsOff = true
	k.Tr.Logf("--- faults stop; fair scheduling")

	// every remaining client step needs at most a tick, a delivery and a retry round
	bound := 4*len(w.dids)*(w.opsPerDID+3) + 10

	for round := 0; round <= bound; round++ {
		if !k.Quiesce(40000, w.check) {
			if k.Viol == nil {
				w.fail(w.prop, "liveness/no-quiescence", "tasks still running after 40000 fair steps without faults")
			}

			return
		}

		done := true
		for _, d := range w.clientsDone {
			done = done && d
		}

		if done && len(w.q.Model) == 0 && !w.q.HasInFl && w.pendingTick == "" && w.nextDelivery() < 0 && len(w.sub.Ch) == 0 &&
			w.cursor2 >= len(w.ledger.Txns) && len(w.sub2.Ch) == 0 {
			return
		}

		// (never wake two repo-owned goroutines without letting the first one settle: the identity under which
		// a goroutine parks is the one set before it was woken)
		if w.cursor2 < len(w.ledger.Txns) && len(w.sub2.Ch) == 0 {
			w.deliver2()
			k.Settle()
		}

		if round == bound {
			break
		}

		if w.nextDelivery() >= 0 && len(w.sub.Ch) == 0 {
			k.Tr.Logf("#%d env deliver (fair)", k.Steps)
			w.deliver()
			k.Settle()

			continue
		}

		if w.pendingTick == "" {
			k.Tr.Logf("#%d env tick timeout (fair)", k.Steps)
			w.sendTick("timeout")
			k.Settle()
		}
	}

	done := 0
	for _, d := range w.clientsDone {
		if d {
			done++
		}
	}

	w.fail(w.prop, "liveness/not-settled", fmt.Sprintf("after %d fair rounds without faults: %d operations queued, %d transactions undelivered, %d of %d clients finished", bound, len(w.q.Model),
		countUndelivered(w.txns), done, len(w.clientsDone)))
}

func countUndelivered(ts []*bTxn) int {
	n := 0

	for _, t := range ts {
		if !t.Delivered {
			n++
		}
	}

	return n
}

// storedModelOps: descriptors of the DID's operations the node has stored, with ledger coordinates.
func (w *bWorld) storedModelOps(d *bDID) []*refmodel.Op {
	ops, _ := w.storedModelOpsRefs(d)

	return ops
}

// storedModelOpsRefs: the reference descriptors of the DID's stored operations, stamped from the ledger, and the
// canonical reference of the transaction each came from.
func (w *bWorld) storedModelOpsRefs(d *bDID) ([]*refmodel.Op, []string) {
	var (
		out   []*refmodel.Op
		crefs []string
	)

	add := func(op *bOp, ti int) {
		if op.Suffix != "" && op.Suffix != d.Suffix {
			return // a retried create accepted under a version with another hash algorithm: stored under its own suffix, no part of this DID's history
		}

		t := w.ledger.Txns[ti]
		m := *op.M
		m.Time, m.Number, m.Published = t.TransactionTime, t.TransactionNumber, true

		for _, v := range w.versions {
			if v.P.GenesisTime == t.ProtocolVersion {
				m.MaxDelta = refmodel.DeltaOf(v.P.MaxOperationTimeDelta)
			}
		}

		out = append(out, &m)
		crefs = append(crefs, t.CanonicalReference)
	}

	for _, op := range d.Ops {
		if op.Stored > 0 && len(op.Txns) > 0 {
			add(op, op.Txns[0])
		}
	}

	// byzantine replays of honest transactions that were stored
	for _, bt := range w.txns {
		if bt.ReplayOf >= 0 && bt.Puts > 0 {
			for _, op := range w.txns[bt.ReplayOf].Included {
				if op.DID == d {
					add(op, bt.Idx)
				}
			}
		}
	}

	return out, crefs
}

func (w *bWorld) finalOracles() {
	k := w.k

	// C15: every honest transaction that no injected fault hit was stored, exactly once
	for _, bt := range w.txns {
		if !bt.Honest || len(bt.Included) == 0 {
			if bt.Byz != "" && bt.ReplayOf < 0 && bt.Puts > 0 {
				w.fail("C15", "store/unreadable-txn-stored", fmt.Sprintf("txn%d (%s) contributed operations to the store", bt.Idx, bt.Byz))
			}

			continue
		}

		if bt.Puts == 0 && !bt.Faulted {
			w.fail("C15", "observer/txn-not-stored", fmt.Sprintf("txn%d (%d operations) was delivered without any injected fault but nothing was stored (did an earlier bad transaction stop the observer?)", bt.Idx, len(bt.Included)))
		}
	}

	// two nodes that observed the same ledger hold the same operations with the same stamps (the replica had no
	// injected faults, so it holds everything readable; the first node may lack transactions hit by a fault)
	w.replicaOracle()

	// C20: every accepted operation became resolvable; each DID resolves to the reference state
	for _, d := range w.dids {
		if d.Suffix == "" {
			continue
		}

		for _, op := range d.Ops {
			if op.Accepted && op.Stored == 0 && !op.Expired && !w.txnFaulted(op) {
				w.fail("C20", "liveness/accepted-not-stored", fmt.Sprintf("op%d (%s did%d) was accepted but never reached the operation store although faults had stopped", op.ID, op.Type, d.Idx))
			}
		}

		mops := w.storedModelOps(d)

		if w.prop == "C06" {
			w.versionCutChecks(d)
		}

		if w.useUnpub {
			for _, e := range w.unpub.Ops[d.Suffix] {
				if op := w.byKey[simenv.ReqKey(e.OperationRequest)]; op != nil {
					m := *op.M
					m.Time, m.Published = e.TransactionTime, false
					mops = append(mops, &m)
				}
			}
		}

		st, merr := refmodel.Resolve(mops)

		rm, err := w.proc.Resolve(d.Suffix)
		if (merr != nil) != (err != nil) {
			w.fail("C20", "end-to-end/error-mismatch", fmt.Sprintf("did%d: reference model says %v, Resolve says %v", d.Idx, merr, err))

			continue
		}

		if err != nil {
			continue
		}

		got := extractDoc(rm.Doc)

		var diffs []string

		if rm.Deactivated != st.Deactivated {
			diffs = append(diffs, fmt.Sprintf("deactivated: got %v want %v", rm.Deactivated, st.Deactivated))
		}

		if rm.UpdateCommitment != st.UpdateC {
			diffs = append(diffs, fmt.Sprintf("update commitment: got …%s want …%s", tail6(rm.UpdateCommitment), tail6(st.UpdateC)))
		}

		if rm.RecoveryCommitment != st.RecoveryC {
			diffs = append(diffs, fmt.Sprintf("recovery commitment: got …%s want …%s", tail6(rm.RecoveryCommitment), tail6(st.RecoveryC)))
		}

		if !docEqual(got, st.Doc) {
			diffs = append(diffs, fmt.Sprintf("document: got {%s} want {%s}", got, st.Doc))
		}

		if len(diffs) > 0 {
			prop, oracle := "C20", "end-to-end/state"
			if w.prop == "C11" {
				prop, oracle = "C11", "effect/state"
			}

			w.fail(prop, oracle, fmt.Sprintf("did%d (key type %s) after %d stored operations: %s; model applied %v of %s", d.Idx, d.KeyType, len(mops), strings.Join(diffs, "; "),
				st.Applied, refmodel.Describe(mops)))

			continue
		}

		k.Count("probe:did-resolved-equal-to-model")

		if len(st.Applied) > 1 {
			w.nontrivial = true
		}

		w.externalChecks(d, st)
	}
}

func (w *bWorld) replicaOracle() {
	render := func(op *operation.AnchoredOperation) string {
		return fmt.Sprintf("%s t=%d n=%d v=%d canon=%s equiv=%v origin=%s req=%s", op.Type, op.TransactionTime, op.TransactionNumber, op.ProtocolVersion,
			op.CanonicalReference, op.EquivalentReferences, jsonString(op.AnchorOrigin), simenv.ReqKey(op.OperationRequest))
	}

	index := func(s *simenv.OpStore) map[string]string {
		out := map[string]string{}

		for sfx, list := range s.Ops {
			for _, op := range list {
				out[fmt.Sprintf("%s@(%d,%d)", sfx, op.TransactionTime, op.TransactionNumber)] = render(op)
			}
		}

		return out
	}

	a, b := index(w.store), index(w.store2)

	faultedCoords := map[string]bool{}

	for i, bt := range w.txns {
		if bt.Faulted || bt.Puts == 0 {
			t := w.ledger.Txns[i]
			faultedCoords[fmt.Sprintf("(%d,%d)", t.TransactionTime, t.TransactionNumber)] = true
		}
	}

	var keys []string
	for k2 := range a {
		keys = append(keys, k2)
	}

	for k2 := range b {
		if _, ok := a[k2]; !ok {
			keys = append(keys, k2)
		}
	}

	sort.Strings(keys)

	for _, key := range keys {
		x, inA := a[key]
		y, inB := b[key]

		switch {
		case inA && inB && x != y:
			w.fail(w.prop, "replica/divergence", fmt.Sprintf("the two nodes stored different operations for %s:\n node 1: %s\n node 2: %s", key, x, y))

			return
		case inA && !inB:
			w.fail(w.prop, "replica/divergence", fmt.Sprintf("node 1 stored %s (%s) but the fault-free replica did not", key, x))

			return
		case !inA && inB && !faultedCoords[key[strings.LastIndex(key, "@")+1:]]:
			w.fail(w.prop, "replica/divergence", fmt.Sprintf("the replica stored %s (%s) but node 1 did not, although no fault was injected into that transaction", key, y))

			return
		}
	}

	if len(b) > 0 {
		w.k.Count("probe:replica-compared")
	}
}

func (w *bWorld) txnFaulted(op *bOp) bool {
	for _, ti := range op.Txns {
		if w.txns[ti].Faulted {
			return true
		}
	}

	return false
}

// externalChecks: the resolver's external document shows the model's keys and services; the
// create response, the long-form resolution and the short-form resolution agree (C20).
func (w *bWorld) externalChecks(d *bDID, st *refmodel.State) {
	if w.prop != "C20" && w.prop != "C11" {
		return
	}

	did := bNS + ":" + d.Suffix

	code, short := w.get(did)
	if st.Deactivated {
		if code == http.StatusOK {
			md, _ := short["didDocumentMetadata"].(map[string]interface{})
			if md == nil || md["deactivated"] != true {
				w.fail("C20", "end-to-end/deactivated-metadata", fmt.Sprintf("did%d is deactivated but the resolver's metadata does not say so: %v", d.Idx, md))
			}
		}

		return
	}

	if code != http.StatusOK {
		w.fail("C20", "end-to-end/resolve-http", fmt.Sprintf("did%d resolves in the processor but the REST resolver answered %d", d.Idx, code))

		return
	}

	doc, _ := short["didDocument"].(map[string]interface{})

	var gotKeys, wantKeys, gotSvcs, wantSvcs []string

	if l, ok := doc["verificationMethod"].([]interface{}); ok {
		for _, e := range l {
			em, _ := e.(map[string]interface{})
			id, _ := em["id"].(string)
			gotKeys = append(gotKeys, strings.TrimPrefix(id, did)+"="+externalKeyShown(em))
		}
	}

	for _, e := range st.Doc.Keys {
		wantKeys = append(wantKeys, "#"+e.ID+"="+externalKeyWanted(e.ID, e.Mark))
	}

	if l, ok := doc["service"].([]interface{}); ok {
		for _, e := range l {
			em, _ := e.(map[string]interface{})
			id, _ := em["id"].(string)
			gotSvcs = append(gotSvcs, strings.TrimPrefix(id, did)+"="+workload.SvcMark(em))
		}
	}

	for _, e := range st.Doc.Svcs {
		wantSvcs = append(wantSvcs, "#"+e.ID+"="+e.Mark)
	}

	if fmt.Sprint(gotKeys) != fmt.Sprint(wantKeys) || fmt.Sprint(gotSvcs) != fmt.Sprint(wantSvcs) {
		w.fail("C20", "end-to-end/external-document", fmt.Sprintf("did%d: external document has keys %v services %v, reference state has keys %v services %v", d.Idx, gotKeys, gotSvcs, wantKeys, wantSvcs))

		return
	}

	// every key is referenced from exactly the relationship sections its purposes name (in key order)
	for _, section := range []string{"authentication", "assertionMethod", "keyAgreement", "capabilityDelegation", "capabilityInvocation"} {
		var want, got []string

		for _, e := range st.Doc.Keys {
			for _, pu := range workload.KeyPurposes(e.ID, e.Mark) {
				if pu == section {
					want = append(want, "#"+e.ID)
				}
			}
		}

		if l, ok := doc[section].([]interface{}); ok {
			for _, e := range l {
				if ref, ok := e.(string); ok {
					got = append(got, strings.TrimPrefix(ref, did))
				} else if em, ok := e.(map[string]interface{}); ok {
					id, _ := em["id"].(string)
					got = append(got, strings.TrimPrefix(id, did))
				}
			}
		}

		if fmt.Sprint(got) != fmt.Sprint(want) {
			w.fail("C20", "end-to-end/external-relationships", fmt.Sprintf("did%d: section %s of the external document references %v, the reference state's key purposes give %v", d.Idx, section, got, want))

			return
		}
	}

	// the DID addressed under the configured namespace alias shows the same document (only the DID strings differ)
	if w.alias != "" {
		aliasDID := w.alias + ":" + d.Suffix
		strip := func(m map[string]interface{}, id string) string {
			docm, _ := m["didDocument"].(map[string]interface{})
			b, _ := json.Marshal(docm)

			return strings.ReplaceAll(string(b), id, "DID")
		}

		acode, am := w.get(aliasDID)
		if acode != http.StatusOK {
			w.fail("C20", "end-to-end/alias-resolve", fmt.Sprintf("did%d resolves as %s but the alias form %s answered %d %v", d.Idx, did, aliasDID, acode, am))

			return
		}

		if a, b := strip(am, aliasDID), strip(short, did); a != b {
			w.fail("C20", "end-to-end/alias-document", fmt.Sprintf("did%d: the document resolved under the alias differs beyond the DID string:\n alias:     %s\n canonical: %s", d.Idx, a, b))

			return
		}

		w.k.Count("probe:alias-form-agrees")
	}

	// create response vs long form vs short form: only meaningful while the DID is still in its created state
	if len(st.Applied) != 1 || d.CreateResp == nil {
		return
	}

	norm := func(m map[string]interface{}, ids ...string) string {
		docm, _ := m["didDocument"].(map[string]interface{})
		b, _ := json.Marshal(docm)
		s := string(b)

		sort.Slice(ids, func(i, j int) bool { return len(ids[i]) > len(ids[j]) })

		for _, id := range ids {
			if id != "" {
				s = strings.ReplaceAll(s, id, "DID")
			}
		}

		return s
	}

	// with a label configured, interim documents carry it in their DID strings
	labelled := ""
	labelledLong := ""

	if w.label != "" {
		labelled = bNS + ":" + w.label + ":" + d.Suffix
		labelledLong = labelled + strings.TrimPrefix(d.LongForm, did)
	}

	a := norm(d.CreateResp, d.LongForm, did, labelled, labelledLong)
	c := norm(short, d.LongForm, did, labelled, labelledLong)

	if a != c {
		w.fail("C20", "create/response-vs-short-form", fmt.Sprintf("did%d: the create response and the short-form resolution after anchoring differ beyond the DID string:\n create: %s\n short:  %s", d.Idx, a, c))

		return
	}

	if d.LongResp != nil {
		if b := norm(d.LongResp, d.LongForm, did, labelled, labelledLong); b != c {
			w.fail("C20", "create/long-form-vs-short-form", fmt.Sprintf("did%d: long-form resolution before anchoring and short-form resolution after anchoring differ beyond the DID string:\n long:  %s\n short: %s", d.Idx, b, c))

			return
		}

		w.k.Count("probe:create-long-short-agree")
	}

	md, _ := short["didDocumentMetadata"].(map[string]interface{})
	method, _ := md["method"].(map[string]interface{})

	if method == nil || method["published"] != true {
		w.fail("C20", "create/published-flag", fmt.Sprintf("did%d is anchored and stored but its resolution metadata does not say published: %v", d.Idx, md))
	}
}

// versionCutChecks (C06, through the whole node): the DID – addressed by its short form or by its long form –
// resolved through the REST resolver and the document handler at a version time or version id shows the reference
// state of the stored history truncated at that cut; a cut outside the history is an error for either form.
func (w *bWorld) versionCutChecks(d *bDID) {
	if w.useUnpub && len(w.unpub.Ops[d.Suffix]) > 0 {
		return // a pending unpublished operation: the property speaks of anchored operations only
	}

	mops, crefs := w.storedModelOpsRefs(d)
	if len(mops) == 0 {
		return
	}

	idx := make([]int, len(mops))
	for i := range idx {
		idx[i] = i
	}

	sort.SliceStable(idx, func(a, b int) bool {
		x, y := mops[idx[a]], mops[idx[b]]
		if x.Time != y.Time {
			return x.Time < y.Time
		}

		return x.Number < y.Number
	})

	short := bNS + ":" + d.Suffix
	forms := []string{short}

	longUsable := false

	if d.Create != nil {
		var cr map[string]interface{}
		if json.Unmarshal(d.Create.Req, &cr) == nil {
			delete(cr, "type")

			if jcs, err := jcsOf(cr); err == nil {
				forms = append(forms, short+":"+encoder.EncodeToString(jcs))
				// (a long-form DID is tied to the hash algorithm of the version that was current when it was built)
				longUsable = w.proto.CurrentVersion().P.GenesisTime == d.Create.Version
			}
		}
	}

	rfc := func(t uint64) string { return time.Unix(int64(t), 0).UTC().Format(time.RFC3339) }

	first := mops[idx[0]].Time

	// cuts outside the history
	for fi, form := range forms {
		for _, q := range []string{"versionId=no-such-version", "versionId=" + url.QueryEscape("not found"), "versionId=" + url.QueryEscape("x not found y"),
			"versionTime=" + url.QueryEscape(rfc(first-1)), "versionTime=" + url.QueryEscape(rfc(first-1000))} {
			if code, m := w.get(form + "?" + q); code == http.StatusOK {
				w.fail("C06", "node/cut-outside-history", fmt.Sprintf("did%d (%s form) resolved with %s, a cut outside its history (first operation at %d): %v",
					d.Idx, []string{"short", "long"}[fi], q, first, m))

				return
			}

			w.k.Count("probe:node-cut-outside-history-refused")
		}
	}

	// cuts inside the history
	for n := 0; n < 3; n++ {
		i := w.k.T.Draw(len(idx), "cut.index")
		if n == 0 {
			i = len(idx) - 1
		}

		byTime := w.k.T.Draw(2, "cut.kind") == 0
		fi := w.k.T.Draw(len(forms), "cut.form")

		var (
			kept []*refmodel.Op
			q    string
		)

		if byTime {
			t := mops[idx[i]].Time
			q = "versionTime=" + url.QueryEscape(rfc(t))

			for _, j := range idx {
				if mops[j].Time <= t {
					kept = append(kept, mops[j])
				}
			}
		} else {
			q = "versionId=" + url.QueryEscape(crefs[idx[i]])

			for _, j := range idx[:i+1] {
				kept = append(kept, mops[j])
			}
		}

		st, merr := refmodel.Resolve(kept)
		code, m := w.get(forms[fi] + "?" + q)
		what := fmt.Sprintf("did%d (%s form) at %s (%d of %d stored operations)", d.Idx, []string{"short", "long"}[fi], q, len(kept), len(mops))

		if merr != nil {
			if code == http.StatusOK {
				w.fail("C06", "node/cut-without-create", fmt.Sprintf("%s resolved although the truncated history has no applicable create: %v", what, m))

				return
			}

			continue
		}

		if code != http.StatusOK {
			if fi == 1 && !longUsable {
				continue
			}

			w.fail("C06", "node/cut-refused", fmt.Sprintf("%s: the truncated history resolves in the reference model, the node answered %d %v", what, code, m))

			return
		}

		if st.Deactivated {
			md, _ := m["didDocumentMetadata"].(map[string]interface{})
			if md == nil || md["deactivated"] != true {
				w.fail("C06", "node/cut-state", fmt.Sprintf("%s: the truncated history ends deactivated, the node's metadata does not say so: %v", what, md))

				return
			}

			continue
		}

		doc, _ := m["didDocument"].(map[string]interface{})
		rel := func(id string) string {
			for _, f := range []string{forms[len(forms)-1], short} {
				id = strings.TrimPrefix(id, f)
			}

			return id
		}

		var gotKeys, wantKeys, gotSvcs, wantSvcs []string

		if l, ok := doc["verificationMethod"].([]interface{}); ok {
			for _, e := range l {
				em, _ := e.(map[string]interface{})
				id, _ := em["id"].(string)
				gotKeys = append(gotKeys, rel(id)+"="+externalKeyShown(em))
			}
		}

		for _, e := range st.Doc.Keys {
			wantKeys = append(wantKeys, "#"+e.ID+"="+externalKeyWanted(e.ID, e.Mark))
		}

		if l, ok := doc["service"].([]interface{}); ok {
			for _, e := range l {
				em, _ := e.(map[string]interface{})
				id, _ := em["id"].(string)
				gotSvcs = append(gotSvcs, rel(id)+"="+workload.SvcMark(em))
			}
		}

		for _, e := range st.Doc.Svcs {
			wantSvcs = append(wantSvcs, "#"+e.ID+"="+e.Mark)
		}

		if fmt.Sprint(gotKeys) != fmt.Sprint(wantKeys) || fmt.Sprint(gotSvcs) != fmt.Sprint(wantSvcs) {
			w.fail("C06", "node/cut-state", fmt.Sprintf("%s: the node shows keys %v services %v, the truncated history gives keys %v services %v (model applied %v of %s)",
				what, gotKeys, gotSvcs, wantKeys, wantSvcs, st.Applied, refmodel.Describe(kept)))

			return
		}

		w.k.Count("probe:node-cut-equal-to-model")

		if len(kept) < len(mops) && len(st.Applied) > 1 {
			w.nontrivial = true
		}
	}
}

func jcsOf(v interface{}) ([]byte, error) { return canonicalizer.MarshalCanonical(v) }

// chunkReader hands out at most n bytes per Read.
type chunkReader struct {
	b []byte
	n int
}

func (c *chunkReader) Read(p []byte) (int, error) {
	if len(c.b) == 0 {
		return 0, io.EOF
	}

	n := c.n
	if n > len(p) {
		n = len(p)
	}

	if n > len(c.b) {
		n = len(c.b)
	}

	copy(p, c.b[:n])
	c.b = c.b[n:]

	return n, nil
}

// externalKeyShown: how a verification method of the external document carries its key ("member:value").
func externalKeyShown(em map[string]interface{}) string {
	var parts []string

	if jwk, ok := em["publicKeyJwk"].(map[string]interface{}); ok {
		x, _ := jwk["x"].(string)
		parts = append(parts, "publicKeyJwk:"+x)
	}

	for _, f := range []string{"publicKeyBase58", "publicKeyMultibase"} {
		if v, ok := em[f].(string); ok {
			parts = append(parts, f+":"+v)
		}
	}

	return strings.Join(parts, "+")
}

func externalKeyWanted(id, mark string) string {
	f, v := workload.ExternalKeyValue(id, mark)

	return f + ":" + v
}

func init() {
	for _, p := range []string{"C20", "C15", "C11"} {
		p := p
		register(p,
			Scenario{Name: "B-node", World: "B", Weight: 4, Run: func(rc *RunCtx) *RunResult { return runWorldB(rc, p) }},
			Scenario{Name: "B-node-faultfree", World: "B", Weight: 1, Run: func(rc *RunCtx) *RunResult {
				rc.Opt = map[string]string{"faultfree": "1"}

				return runWorldB(rc, p)
			}})
	}

	for _, p := range []string{"C04", "C05", "C12"} {
		p := p
		register(p, Scenario{Name: "B-intake", World: "B", Weight: 1, Run: func(rc *RunCtx) *RunResult { return runWorldB(rc, p) }})
	}

	// C16 through the whole node: the queue model, the ack/nack contract and the cut rules with operations arriving
	// through the document handler (the writer worlds W-M1/W-M2 remain the main check)
	register("C16", Scenario{Name: "B-node", World: "B", Weight: 1, Run: func(rc *RunCtx) *RunResult { return runWorldB(rc, "C16") }})

	// C15 with transactions of hundreds to thousands of operations (the node world keeps batches small)
	register("C15", Scenario{Name: "W-large-txn", World: "W", Weight: 1, Run: func(rc *RunCtx) *RunResult { return runLargeBatchFor(rc, "C15") }})

	register("C06", Scenario{Name: "B-version-cut", World: "B", Weight: 1, Run: func(rc *RunCtx) *RunResult { return runWorldB(rc, "C06") }})
}
