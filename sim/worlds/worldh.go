package worlds

import (
	"bytes"
	"compress/gzip"
	"encoding/json"
	"errors"
	"fmt"
	"runtime/debug"
	"strconv"
	"strings"

	"github.com/trustbloc/sidetree-core-go/pkg/api/operation"
	"github.com/trustbloc/sidetree-core-go/pkg/api/protocol"
	"github.com/trustbloc/sidetree-core-go/pkg/api/txn"
	"github.com/trustbloc/sidetree-core-go/pkg/versions/1_0/model"
	"github.com/trustbloc/sidetree-core-go/pkg/versions/1_0/operationparser"
	"github.com/trustbloc/sidetree-core-go/pkg/versions/1_0/txnprovider"

	"verifsim/simenv"
	"verifsim/simkit"
	"verifsim/workload"
)

// World H – "hostile CAS". The real OperationHandler writes genuine batch file sets; then the
// real OperationProvider reads them back through a CAS that fails, lies, truncates, swaps and
// serves Byzantine (well-formed but inconsistent) files, under protocol limits drawn onto the
// boundaries of the actual file sizes. Serves C14.

type hFileSet struct {
	count                                     int
	coreURI                                   string
	core, coreProof, provIndex, provProof, ch map[string]interface{}
}

type hWorld struct {
	k     *simkit.Kernel
	cas   *simenv.CAS
	comp  *simenv.CompressionProxy
	proto protocol.Protocol

	anchor   string
	baseline []*operation.AnchoredOperation
	uris     map[string]string // role -> uri
	nCreate  int
	nRecover int
	nUpdate  int
	nDeact   int

	foreignDelta interface{} // a valid delta taken from a create request that is not part of the batch
	readHook     func(n int, addr string, content []byte, found bool) ([]byte, error)
	reads        int
	nontrivial   bool
	samples      []string
}

func (w *hWorld) fail(oracle, detail string) {
	w.k.Fail(&simkit.Violation{Property: "C14", Oracle: oracle, Detail: detail, Fingerprint: "C14/" + oracle})
}

func runWorldH(rc *RunCtx) *RunResult {
	k := rc.K
	k.PanicProp = "C14"
	k.Props = map[string]bool{"C14": true}
	T := k.T

	w := &hWorld{k: k, uris: map[string]string{}}
	w.cas = simenv.NewCAS(k, "")
	w.comp = simenv.NewCompressionProxy(nil)
	w.cas.ReadFault = func(addr string, content []byte, found bool) ([]byte, error) {
		n := w.reads
		w.reads++

		if w.readHook != nil {
			return w.readHook(n, addr, content, found)
		}

		return nil, nil
	}

	w.proto = simenv.DefaultProtocol(0)
	w.proto.MaxOperationCount = 50
	w.proto.MaxOperationSize = 20000
	w.proto.MaxDeltaSize = 4000

	// ---- a genuine batch
	nOps := 1 + T.Draw(7, "cfg.ops")
	if T.Draw(6, "cfg.big") == 0 {
		nOps = 9 + T.Draw(12, "cfg.ops.big")
	}

	mix := T.Draw(5, "cfg.mix") // 0: anything, 1: deactivate only, 2: update only, 3: create only, 4: recover+deactivate

	var kg workload.KeyGen

	var ops []*operation.QueuedOperation

	parser := operationparser.New(w.proto)

	for i := 0; i < nOps; i++ {
		upd, rec := kg.New(workload.Ed25519, i%3 == 1), kg.New(workload.Ed25519, i%4 == 2)
		pds := []workload.PatchDesc{{Kind: workload.AddKey, IDs: []string{"k1", "k2"}[:1+i%2], Mark: fmt.Sprintf("m%d", i)},
			{Kind: workload.AddSvc, IDs: []string{"s1"}, Mark: fmt.Sprintf("m%d", i)}}[:1+i%2]
		if i%3 == 0 {
			pds = append(pds, workload.PatchDesc{Kind: workload.AddNote, Mark: fmt.Sprintf("n%d", i)}) // an ietf-json-patch inside the delta
		}

		patches, _ := workload.ToPatches(pds)

		createReq, err := workload.Build(&workload.OpSpec{Type: operation.TypeCreate, Hash: simenv.SHA2_256, NextUpdate: upd, NextRecovery: rec, Patches: patches, AnchorOrigin: originValue(i), SuffixType: []string{"", "ipdb", ""}[i%3]})
		if err != nil {
			panic(err)
		}

		parsed, err := parser.ParseCreateOperation(createReq, true)
		if err != nil {
			panic(err)
		}

		if w.foreignDelta == nil {
			var cr map[string]interface{}
			if json.Unmarshal(createReq, &cr) == nil {
				w.foreignDelta = cr["delta"]
			}
		}

		typ := operation.TypeCreate

		switch mix {
		case 0:
			typ = []operation.Type{operation.TypeCreate, operation.TypeUpdate, operation.TypeRecover, operation.TypeDeactivate}[T.Draw(4, "op.type")]
		case 1:
			typ = operation.TypeDeactivate
		case 2:
			typ = operation.TypeUpdate
		case 4:
			typ = []operation.Type{operation.TypeRecover, operation.TypeDeactivate}[T.Draw(2, "op.type")]
		}

		req := createReq

		if typ != operation.TypeCreate {
			spec := &workload.OpSpec{Type: typ, Suffix: parsed.UniqueSuffix, Hash: simenv.SHA2_256, Patches: patches, AnchorOrigin: originValue(i + 1)}

			switch typ {
			case operation.TypeUpdate:
				spec.SignKey, spec.NextUpdate = upd, kg.New(workload.Ed25519, false)
			case operation.TypeRecover:
				spec.SignKey, spec.NextUpdate, spec.NextRecovery = rec, kg.New(workload.Ed25519, false), kg.New(workload.Ed25519, false)
			default:
				spec.SignKey = rec
			}

			req, err = workload.Build(spec)
			if err != nil {
				panic(err)
			}
		}

		switch typ {
		case operation.TypeCreate:
			w.nCreate++
		case operation.TypeUpdate:
			w.nUpdate++
		case operation.TypeRecover:
			w.nRecover++
		default:
			w.nDeact++
		}

		ops = append(ops, &operation.QueuedOperation{Type: typ, OperationRequest: req, UniqueSuffix: parsed.UniqueSuffix, Namespace: bNS, AnchorOrigin: "o2"})
	}

	handler := txnprovider.NewOperationHandler(w.proto, w.cas, w.comp, parser, &noMetrics{})

	info, err := handler.PrepareTxnFiles(ops)
	if err != nil {
		w.k.Fail(&simkit.Violation{Property: "HARNESS", Oracle: "prepare", Detail: err.Error(), Fingerprint: "HARNESS/prepare"})

		return &RunResult{Viol: k.Viol}
	}

	w.anchor = info.AnchorString

	base, err := w.read(w.proto, w.anchor, nil)
	if err != nil || len(base) != nOps {
		w.k.Fail(&simkit.Violation{Property: "HARNESS", Oracle: "baseline", Detail: fmt.Sprintf("clean read-back failed: %v (%d ops)", err, len(base)), Fingerprint: "HARNESS/baseline"})

		return &RunResult{Viol: k.Viol}
	}

	w.baseline = base
	fs := w.load(w.anchor)
	w.samples = append(w.samples, fmt.Sprintf("batch: %d create, %d recover, %d update, %d deactivate; anchor %s", w.nCreate, w.nRecover, w.nUpdate, w.nDeact, short40(w.anchor)))

	// ---- hostile trials
	trials := 6 + T.Draw(14, "cfg.trials")

	for i := 0; i < trials && k.Viol == nil; i++ {
		k.Steps++
		w.readHook = nil
		w.reads = 0
		w.trial(fs)
	}

	res := &RunResult{
		Viol: k.Viol, Nontrivial: w.nontrivial, SimSeconds: 0,
		Real: []string{"txnprovider.OperationProvider", "txnprovider.OperationHandler", "txnprovider/models", "operationparser (ValidateDelta, signed data)", "compression registry + gzip", "anchor string parser"},
		Stub: []string{"CAS (faulty/Byzantine)", "alternate CAS sources"},
	}
	res.Sample = map[string]interface{}{"trials": w.samples}

	return res
}

type noMetrics struct{}

func (noMetrics) CASWriteSize(string, int) {}

// read runs the real provider with panic recovery.
func (w *hWorld) read(p protocol.Protocol, anchor string, alt []string) (ops []*operation.AnchoredOperation, err error) {
	defer func() {
		if r := recover(); r != nil {
			w.fail("panic", fmt.Sprintf("GetTxnOperations panicked on anchor %q: %v\n%s", anchor, r, debug.Stack()))
			err = errors.New("panic")
		}
	}()

	prov := txnprovider.NewOperationProvider(p, operationparser.New(p), w.cas, w.comp,
		txnprovider.WithSourceCASURIFormatter(func(uri, source string) (string, error) { return source + "/" + uri, nil }))

	return prov.GetTxnOperations(&txn.SidetreeTxn{AnchorString: anchor, Namespace: bNS, AlternateSources: alt, TransactionTime: 1, TransactionNumber: 1})
}

func (w *hWorld) decode(uri string) map[string]interface{} {
	raw, ok := w.cas.Files[uri]
	if !ok {
		return nil
	}

	b, err := w.comp.Decompress("GZIP", raw)
	if err != nil {
		return nil
	}

	var m map[string]interface{}
	if json.Unmarshal(b, &m) != nil {
		return nil
	}

	return m
}

func str(m map[string]interface{}, k string) string {
	s, _ := m[k].(string)

	return s
}

// load decodes the genuine file set.
func (w *hWorld) load(anchor string) *hFileSet {
	parts := strings.SplitN(anchor, ".", 2)
	fs := &hFileSet{coreURI: parts[1]}
	fs.count, _ = strconv.Atoi(parts[0])
	fs.core = w.decode(fs.coreURI)
	w.uris["core"] = fs.coreURI

	if u := str(fs.core, "coreProofFileUri"); u != "" {
		fs.coreProof = w.decode(u)
		w.uris["coreProof"] = u
	}

	if u := str(fs.core, "provisionalIndexFileUri"); u != "" {
		fs.provIndex = w.decode(u)
		w.uris["provIndex"] = u

		if pu := str(fs.provIndex, "provisionalProofFileUri"); pu != "" {
			fs.provProof = w.decode(pu)
			w.uris["provProof"] = pu
		}

		if chunks, ok := fs.provIndex["chunks"].([]interface{}); ok && len(chunks) > 0 {
			cm, _ := chunks[0].(map[string]interface{})
			if cu := str(cm, "chunkFileUri"); cu != "" {
				fs.ch = w.decode(cu)
				w.uris["chunk"] = cu
			}
		}
	}

	return fs
}

func deepCopyJSON(v interface{}) interface{} {
	b, _ := json.Marshal(v)

	var out interface{}
	_ = json.Unmarshal(b, &out)

	return out
}

func (fs *hFileSet) clone() *hFileSet {
	cp := func(m map[string]interface{}) map[string]interface{} {
		if m == nil {
			return nil
		}

		return deepCopyJSON(m).(map[string]interface{})
	}

	return &hFileSet{count: fs.count, coreURI: fs.coreURI, core: cp(fs.core), coreProof: cp(fs.coreProof), provIndex: cp(fs.provIndex), provProof: cp(fs.provProof), ch: cp(fs.ch)}
}

// put encodes, compresses and stores a (possibly mutated) file; returns its address.
func (w *hWorld) put(v interface{}) string {
	b, _ := json.Marshal(v)
	c, _ := w.comp.Compress("GZIP", b)

	return w.cas.Put(c)
}

// store writes a mutated file set bottom-up, re-linking references that are still present, and
// returns the new anchor string.
func (w *hWorld) store(fs *hFileSet) string {
	if fs.provIndex != nil {
		if fs.ch != nil {
			if chunks, ok := fs.provIndex["chunks"].([]interface{}); ok && len(chunks) > 0 {
				if cm, ok := chunks[0].(map[string]interface{}); ok {
					cm["chunkFileUri"] = w.put(fs.ch)
				}
			}
		}

		if fs.provProof != nil {
			if _, ok := fs.provIndex["provisionalProofFileUri"]; ok {
				fs.provIndex["provisionalProofFileUri"] = w.put(fs.provProof)
			}
		}

		if _, ok := fs.core["provisionalIndexFileUri"]; ok {
			fs.core["provisionalIndexFileUri"] = w.put(fs.provIndex)
		}
	}

	if fs.coreProof != nil {
		if _, ok := fs.core["coreProofFileUri"]; ok {
			fs.core["coreProofFileUri"] = w.put(fs.coreProof)
		}
	}

	return fmt.Sprintf("%d.%s", fs.count, w.put(fs.core))
}

func list(m map[string]interface{}, path ...string) []interface{} {
	var cur interface{} = m

	for _, p := range path {
		mm, ok := cur.(map[string]interface{})
		if !ok {
			return nil
		}

		cur = mm[p]
	}

	l, _ := cur.([]interface{})

	return l
}

func setList(m map[string]interface{}, l []interface{}, path ...string) {
	cur := m

	for _, p := range path[:len(path)-1] {
		next, ok := cur[p].(map[string]interface{})
		if !ok {
			next = map[string]interface{}{}
			cur[p] = next
		}

		cur = next
	}

	cur[path[len(path)-1]] = l
}

// checkReturned applies the safety oracles to a successful read.
func (w *hWorld) checkReturned(p protocol.Protocol, what, anchor string, ops []*operation.AnchoredOperation) {
	parts := strings.Split(anchor, ".")
	n, err := strconv.ParseUint(parts[0], 10, 63)

	if len(parts) != 2 || err != nil || parts[0] == "" || parts[0][0] == '0' || parts[0][0] == '+' {
		w.fail("accepted-malformed-anchor", fmt.Sprintf("%s: anchor string %q is not '<positive count>.<uri>' but operations were returned", what, anchor))

		return
	}

	if int(n) != len(ops) {
		w.fail("count", fmt.Sprintf("%s: anchor string says %d operations, %d returned", what, n, len(ops)))

		return
	}

	parser := operationparser.New(p)
	seen := map[string]bool{}

	for i, op := range ops {
		if seen[op.UniqueSuffix] {
			w.fail("duplicate-suffix", fmt.Sprintf("%s: suffix %s returned twice", what, op.UniqueSuffix))

			return
		}

		seen[op.UniqueSuffix] = true

		var req struct {
			Delta      *model.DeltaModel `json:"delta"`
			SignedData string            `json:"signedData"`
		}

		if err := json.Unmarshal(op.OperationRequest, &req); err != nil {
			w.fail("request-json", fmt.Sprintf("%s: returned operation %d is not JSON: %v", what, i, err))

			return
		}

		if op.Type != operation.TypeDeactivate {
			if err := parser.ValidateDelta(req.Delta); err != nil {
				w.fail("unvalidated-delta", fmt.Sprintf("%s: returned %s operation %d carries a delta that fails validation: %v", what, op.Type, i, err))

				return
			}
		}

		switch op.Type {
		case operation.TypeUpdate:
			_, err = parser.ParseSignedDataForUpdate(req.SignedData)
		case operation.TypeRecover:
			_, err = parser.ParseSignedDataForRecover(req.SignedData)
		case operation.TypeDeactivate:
			_, err = parser.ParseSignedDataForDeactivate(req.SignedData)
		default:
			err = nil
		}

		if err != nil {
			w.fail("unparseable-signed-data", fmt.Sprintf("%s: returned %s operation %d carries signed data that does not parse: %v", what, op.Type, i, err))

			return
		}
	}
}

func (w *hWorld) sameAsBaseline(ops []*operation.AnchoredOperation) bool {
	if len(ops) != len(w.baseline) {
		return false
	}

	for i := range ops {
		if ops[i].UniqueSuffix != w.baseline[i].UniqueSuffix || ops[i].Type != w.baseline[i].Type || string(ops[i].OperationRequest) != string(w.baseline[i].OperationRequest) {
			return false
		}
	}

	return true
}

// verdict applies the oracles for one trial.
func (w *hWorld) verdict(p protocol.Protocol, what, anchor string, ops []*operation.AnchoredOperation, err error, mustFail, mustSucceed bool) {
	if w.k.Viol != nil {
		return
	}

	if len(w.samples) < 14 {
		outcome := "error"
		if err == nil {
			outcome = fmt.Sprintf("%d ops", len(ops))
		}

		w.samples = append(w.samples, fmt.Sprintf("%s -> %s (mustFail=%v mustSucceed=%v)", what, outcome, mustFail, mustSucceed))
	}

	w.k.Tr.Logf("#%d %s anchor=%s err=%v ops=%d", w.k.Steps, what, short40(anchor), err != nil, len(ops))

	switch {
	case err != nil && mustFail:
		w.k.Count("probe:known-verdict-rejected")
	case err == nil && mustSucceed:
		w.k.Count("probe:genuine-batch-read-back")
	case err == nil:
		w.k.Count("probe:hostile-read-returned-operations")
	default:
		w.k.Count("probe:hostile-read-rejected")
	}

	if err == nil {
		w.checkReturned(p, what, anchor, ops)

		if mustFail && w.k.Viol == nil {
			w.fail("accepted/"+strings.SplitN(what, " ", 2)[0], fmt.Sprintf("%s: must be rejected, but %d operations were returned", what, len(ops)))
		}

		if mustSucceed && w.k.Viol == nil && !w.sameAsBaseline(ops) {
			w.fail("wrong-batch/"+strings.SplitN(what, " ", 2)[0], fmt.Sprintf("%s: the batch must read back unchanged, got different operations", what))
		}

		return
	}

	if mustSucceed {
		w.fail("rejected/"+strings.SplitN(what, " ", 2)[0], fmt.Sprintf("%s: must read back the genuine batch, got error: %v", what, err))
	}
}

func (w *hWorld) trial(fs *hFileSet) {
	T := w.k.T
	p := w.proto
	roles := []string{"core", "coreProof", "provIndex", "provProof", "chunk"}

	var present []string

	for _, r := range roles {
		if w.uris[r] != "" {
			present = append(present, r)
		}
	}

	sizeOf := func(role string) (int, int) {
		raw := w.cas.Files[w.uris[role]]
		d, _ := w.comp.Decompress("GZIP", raw)

		return len(raw), len(d)
	}

	setLimit := func(pp *protocol.Protocol, role string, limit uint) {
		switch role {
		case "core":
			pp.MaxCoreIndexFileSize = limit
		case "coreProof", "provProof":
			pp.MaxProofFileSize = limit
		case "provIndex":
			pp.MaxProvisionalIndexFileSize = limit
		default:
			pp.MaxChunkFileSize = limit
		}
	}

	// both proof files share one limit: the verdict is decided by the larger one
	proofMax := func(f func(string) int) int {
		m := 0

		for _, r := range []string{"coreProof", "provProof"} {
			if w.uris[r] != "" && f(r) > m {
				m = f(r)
			}
		}

		return m
	}

	limitOf := func(pp *protocol.Protocol, role string) int {
		switch role {
		case "core":
			return int(pp.MaxCoreIndexFileSize)
		case "coreProof", "provProof":
			return int(pp.MaxProofFileSize)
		case "provIndex":
			return int(pp.MaxProvisionalIndexFileSize)
		default:
			return int(pp.MaxChunkFileSize)
		}
	}

	// the property's rule, evaluated for every file of the genuine set under configuration pp
	overLimit := func(pp *protocol.Protocol) bool {
		for _, r := range present {
			s, d := sizeOf(r)
			l := limitOf(pp, r)

			if s > l || d > l*int(pp.MaxMemoryDecompressionFactor) {
				return true
			}
		}

		return false
	}

	kind := T.Draw(11, "trial.kind")
	w.k.Count(fmt.Sprintf("trial:%d", kind))

	switch kind {
	case 0: // per-type size limit on the boundary of the actual compressed size
		role := present[T.Draw(len(present), "limit.role")]
		s, _ := sizeOf(role)

		if role == "coreProof" || role == "provProof" {
			s = proofMax(func(r string) int { a, _ := sizeOf(r); return a })
		}

		slack := []int{-1, 0, 1}[T.Draw(3, "limit.slack")]
		setLimit(&p, role, uint(s+slack))
		ops, err := w.read(p, w.anchor, nil)
		w.k.Count("fault:limit-boundary")
		w.nontrivial = true
		mustFail := overLimit(&p)
		w.verdict(p, fmt.Sprintf("size-limit %s size=%d limit=%d", role, s, s+slack), w.anchor, ops, err, mustFail, !mustFail)

	case 1: // decompressed size on the boundary of limit × factor
		role := present[T.Draw(len(present), "bomb.role")]
		s, d := sizeOf(role)

		if role == "coreProof" || role == "provProof" {
			s = proofMax(func(r string) int { a, _ := sizeOf(r); return a })
			d = proofMax(func(r string) int { _, b := sizeOf(r); return b })
		}

		f := 1 + T.Draw(3, "bomb.factor")
		slack := []int{-1, 0, 1}[T.Draw(3, "bomb.slack")]
		limit := (d+f-1)/f + slack

		if limit < 1 {
			limit = 1
		}

		p.MaxMemoryDecompressionFactor = uint(f)
		setLimit(&p, role, uint(limit))
		mustFail := overLimit(&p)
		ops, err := w.read(p, w.anchor, nil)
		w.k.Count("fault:decompression-boundary")
		w.nontrivial = true
		w.verdict(p, fmt.Sprintf("decompress-limit %s compressed=%d decompressed=%d limit=%d factor=%d", role, s, d, limit, f), w.anchor, ops, err, mustFail, !mustFail)

	case 2: // CAS URI length limit
		l := 42 + T.Draw(3, "uri.limit")
		p.MaxCasURILength = uint(l)
		refs := len(present) - 1
		ops, err := w.read(p, w.anchor, nil)
		w.k.Count("fault:uri-length-boundary")
		w.verdict(p, fmt.Sprintf("uri-limit limit=%d uri-length=43 references=%d", l, refs), w.anchor, ops, err, l < 43 && refs > 0, l >= 43)

	case 3: // CAS read failure, with or without alternate sources
		failAt := T.Draw(len(present), "rerr.at")
		alt := T.Draw(4, "rerr.alt") // 0 none, 1 good alternate, 2 bad then good, 3 alternate serves another file

		var sources []string

		switch alt {
		case 1:
			sources = []string{"altA"}
		case 2:
			sources = []string{"altMissing", "altA"}
		case 3:
			sources = []string{"altWrong"}
		}

		w.readHook = func(n int, addr string, content []byte, found bool) ([]byte, error) {
			switch {
			case strings.HasPrefix(addr, "altA/"):
				c := w.cas.Files[strings.TrimPrefix(addr, "altA/")]

				return append([]byte(nil), c...), nil
			case strings.HasPrefix(addr, "altMissing/"):
				return nil, errors.New("not found at alternate")
			case strings.HasPrefix(addr, "altWrong/"):
				return append([]byte(nil), w.cas.Files[w.uris["core"]]...), nil
			case n == failAt:
				return nil, errors.New("injected CAS read failure")
			}

			return nil, nil
		}

		ops, err := w.read(p, w.anchor, sources)
		w.k.Count("fault:cas-read-error")
		w.nontrivial = true
		w.verdict(p, fmt.Sprintf("read-failure at-read=%d alternates=%v", failAt, sources), w.anchor, ops, err, alt == 0, alt == 1 || alt == 2)

	case 4: // byte-level damage of one served file
		at := T.Draw(len(present), "dmg.at")
		mode := T.Draw(5, "dmg.mode")
		x := T.Draw(1<<16, "dmg.x")

		w.readHook = func(n int, addr string, content []byte, found bool) ([]byte, error) {
			if n != at || !found {
				return nil, nil
			}

			c := append([]byte(nil), content...)

			switch mode {
			case 0:
				c[x%len(c)] ^= 1 << uint(x%8)
			case 1:
				c = c[:x%len(c)]
			case 2: // torn: head of this file, tail of another
				o := w.cas.Files[w.cas.Order[x%len(w.cas.Order)]]
				c = append(c[:len(c)/2:len(c)/2], o[len(o)/2:]...)
			case 3: // misdirected: another file of the CAS
				c = append([]byte(nil), w.cas.Files[w.cas.Order[x%len(w.cas.Order)]]...)
			default:
				c = append(c, make([]byte, 1+x%64)...)
			}

			return c, nil
		}

		ops, err := w.read(p, w.anchor, nil)
		w.k.Count("fault:byte-damage")
		w.nontrivial = true
		w.verdict(p, fmt.Sprintf("byte-damage read=%d mode=%d", at, mode), w.anchor, ops, err, false, false)

	case 9: // the primary read fails and an alternate source serves the same file, (re)compressed to just over / at its limit
		role := present[T.Draw(len(present), "altbig.role")]
		_, d := sizeOf(role)
		raw, _ := w.comp.Decompress("GZIP", w.cas.Files[w.uris[role]])
		big := gzipStored(raw)
		slack := []int{-1, 0, 1}[T.Draw(3, "altbig.slack")]
		setLimit(&p, role, uint(len(big)+slack))

		// every other file must stay within its own limit
		others := false

		for _, r := range present {
			if r == role || ((r == "coreProof" || r == "provProof") && (role == "coreProof" || role == "provProof")) {
				continue
			}

			s2, d2 := sizeOf(r)
			if s2 > limitOf(&p, r) || d2 > limitOf(&p, r)*int(p.MaxMemoryDecompressionFactor) {
				others = true
			}
		}

		target := w.uris[role]
		w.readHook = func(n int, addr string, content []byte, found bool) ([]byte, error) {
			switch {
			case addr == "altBig/"+target:
				return append([]byte(nil), big...), nil
			case strings.HasPrefix(addr, "altBig/"):
				return nil, errors.New("not found at alternate")
			case addr == target:
				return nil, errors.New("injected CAS read failure")
			}

			return nil, nil
		}

		lim := len(big) + slack
		mustFail := others || len(big) > lim || d > lim*int(p.MaxMemoryDecompressionFactor)
		// with a shared proof limit the other proof file is judged against the same number
		if role == "coreProof" || role == "provProof" {
			for _, r := range []string{"coreProof", "provProof"} {
				if r != role && w.uris[r] != "" {
					s2, d2 := sizeOf(r)
					if s2 > lim || d2 > lim*int(p.MaxMemoryDecompressionFactor) {
						mustFail = true
					}
				}
			}
		}

		ops, err := w.read(p, w.anchor, []string{"altBig"})
		w.k.Count("fault:alternate-source-at-size-limit")
		w.nontrivial = true
		w.verdict(p, fmt.Sprintf("alt-size-limit %s served=%d limit=%d decompressed=%d", role, len(big), lim, d), w.anchor, ops, err, mustFail, !mustFail)

	case 10: // exactly one reference is longer than the maximum CAS URI length (every reference has its own check)
		refs := present // including the core index reference inside the anchor string
		if len(refs) == 0 {
			return
		}

		role := refs[T.Draw(len(refs), "longuri.role")]
		extra := 1 + T.Draw(3, "longuri.extra")
		limit := 43 + T.Draw(extra+1, "longuri.limit") // 43 .. 43+extra
		longAddr := w.uris[role] + strings.Repeat("x", extra)
		w.cas.Files[longAddr] = w.cas.Files[w.uris[role]]

		f2 := fs.clone()

		switch role {
		case "core":
		case "coreProof":
			f2.core["coreProofFileUri"] = longAddr
		case "provIndex":
			f2.core["provisionalIndexFileUri"] = longAddr
		case "provProof":
			f2.provIndex["provisionalProofFileUri"] = longAddr
		default:
			chunks, _ := f2.provIndex["chunks"].([]interface{})
			cm, _ := chunks[0].(map[string]interface{})
			cm["chunkFileUri"] = longAddr
		}

		// re-link only the parents of the re-addressed file
		anchor := ""

		switch role {
		case "core":
			anchor = fmt.Sprintf("%d.%s", f2.count, longAddr)
		case "coreProof", "provIndex":
			anchor = fmt.Sprintf("%d.%s", f2.count, w.put(f2.core))
		default:
			f2.core["provisionalIndexFileUri"] = w.put(f2.provIndex)
			anchor = fmt.Sprintf("%d.%s", f2.count, w.put(f2.core))
		}

		p.MaxCasURILength = uint(limit)
		ops, err := w.read(p, anchor, nil)
		w.k.Count("fault:one-long-uri")
		w.nontrivial = true
		mustFail := 43+extra > limit
		w.verdict(p, fmt.Sprintf("long-uri %s length=%d limit=%d", role, 43+extra, limit), anchor, ops, err, mustFail, !mustFail)

	case 5, 6: // Byzantine, well-formed file sets whose verdict is known by construction
		w.structural(fs)

	case 7: // Byzantine edits with unknown verdict: only the safety oracles apply
		w.randomEdit(fs)

	default: // arbitrary anchor strings
		uri := w.uris["core"]
		cands := []string{"", ".", "abc", "1", "1.", "." + uri, "0." + uri, "-1." + uri, "01." + uri, "+1." + uri, "1.2.3", "99999999999999999999." + uri,
			fmt.Sprintf("%d.%s", fs.count+1, uri), fmt.Sprintf("%d.%s", fs.count-1, uri), fmt.Sprintf("%d.%s", fs.count, "nosuchfile"), fmt.Sprintf(" %d.%s", fs.count, uri),
			fmt.Sprintf("%d.%s ", fs.count, uri), fmt.Sprintf("%d.%s", fs.count, w.uris["chunk"]), "1e0." + uri, fmt.Sprintf("%d.%s", fs.count, strings.Repeat("a", 5000))}
		a := cands[T.Draw(len(cands), "anchor.pick")]
		ops, err := w.read(p, a, nil)
		w.k.Count("fault:arbitrary-anchor")
		w.verdict(p, fmt.Sprintf("anchor-string %q", short40(a)), a, ops, err, true, false)
	}
}

// structural applies one well-formed inconsistency whose verdict is "must be rejected".
func (w *hWorld) structural(orig *hFileSet) {
	T := w.k.T
	fs := orig.clone()
	full := w.nRecover+w.nDeact > 0

	type mut struct {
		name string
		ok   bool
		do   func()
	}

	dropLast := func(m map[string]interface{}, path ...string) {
		l := list(m, path...)
		setList(m, l[:len(l)-1], path...)
	}

	dupLast := func(m map[string]interface{}, path ...string) {
		l := list(m, path...)
		setList(m, append(l, deepCopyJSON(l[len(l)-1])), path...)
	}

	muts := []mut{
		{"missing-core-proof-reference", full, func() { delete(fs.core, "coreProofFileUri") }},
		{"superfluous-core-proof-reference", !full, func() { fs.core["coreProofFileUri"] = w.uris["core"] }},
		{"missing-provisional-proof-reference", w.nUpdate > 0, func() { delete(fs.provIndex, "provisionalProofFileUri") }},
		{"superfluous-provisional-proof-reference", w.nUpdate == 0 && fs.provIndex != nil, func() { fs.provIndex["provisionalProofFileUri"] = w.uris["chunk"] }},
		{"missing-chunk-reference", fs.provIndex != nil, func() { fs.provIndex["chunks"] = []interface{}{} }},
		// exactly one chunk file belongs to a batch: further chunk references (a copy of the first, a file nobody has, an
		// over-long URI) are superfluous
		{"superfluous-chunk-reference", fs.provIndex != nil && len(list(fs.provIndex, "chunks")) == 1, func() {
			extra := []interface{}{
				deepCopyJSON(list(fs.provIndex, "chunks")[0]),
				map[string]interface{}{"chunkFileUri": "QmNoSuchFileAnywhere"},
				map[string]interface{}{"chunkFileUri": strings.Repeat("u", 900)},
			}[T.Draw(3, "struct.chunk.extra")]
			setList(fs.provIndex, append(list(fs.provIndex, "chunks"), extra), "chunks")
		}},
		// a batch of deactivates only carries no deltas and has no provisional index: a reference to one (with a chunk
		// file of no deltas behind it) is superfluous
		{"superfluous-provisional-index-reference", fs.provIndex == nil && w.nCreate+w.nRecover+w.nUpdate == 0 && w.nDeact > 0, func() {
			fs.ch = []map[string]interface{}{{"deltas": []interface{}{}}, {}}[T.Draw(2, "struct.superprov.chunk")]
			fs.provIndex = map[string]interface{}{"chunks": []interface{}{map[string]interface{}{"chunkFileUri": "x"}}}
			fs.core["provisionalIndexFileUri"] = "x"
		}},
		// the core index lists creates / recovers (which need deltas from a chunk file) but names no provisional index at
		// all; the anchor count is what a reader that silently skips them would return
		{"missing-provisional-index-reference", fs.provIndex != nil && w.nCreate+w.nRecover > 0, func() {
			delete(fs.core, "provisionalIndexFileUri")
			fs.provIndex, fs.provProof, fs.ch = nil, nil, nil

			if T.Draw(2, "struct.noprov.count") == 0 && w.nDeact > 0 {
				fs.count = w.nDeact
			}
		}},
		// counts that disagree between index and proof files, in both directions; the anchor count is set to what
		// a reader trusting the index (or, alternatively, the proof) would return
		{"core-proof-recover-count-less", w.nRecover > 0, func() { dropLast(fs.coreProof, "operations", "recover"); fs.count-- }},
		{"core-proof-recover-count-more", w.nRecover > 0, func() { dupLast(fs.coreProof, "operations", "recover") }},
		{"core-proof-deactivate-count-more", w.nDeact > 0, func() { dupLast(fs.coreProof, "operations", "deactivate"); fs.count++ }},
		{"core-proof-deactivate-count-more-same-anchor-count", w.nDeact > 0, func() { dupLast(fs.coreProof, "operations", "deactivate") }},
		{"core-proof-deactivate-count-less", w.nDeact > 1, func() { dropLast(fs.coreProof, "operations", "deactivate") }},
		// two deviations that cancel in the totals: every per-section count still disagrees with the index
		{"core-proof-recover-less-deactivate-more", w.nRecover > 0 && w.nDeact > 0, func() {
			dropLast(fs.coreProof, "operations", "recover")
			dupLast(fs.coreProof, "operations", "deactivate")
		}},
		{"core-proof-recover-more-deactivate-less", w.nRecover > 0 && w.nDeact > 0, func() {
			dupLast(fs.coreProof, "operations", "recover")
			dropLast(fs.coreProof, "operations", "deactivate")
		}},
		{"provisional-proof-update-less-chunk-delta-more", w.nUpdate > 0 && fs.ch != nil && len(list(fs.ch, "deltas")) > 0, func() {
			dropLast(fs.provProof, "operations", "update")
			dupLast(fs.ch, "deltas")
		}},
		{"provisional-proof-update-more-chunk-delta-less", w.nUpdate > 0 && fs.ch != nil && len(list(fs.ch, "deltas")) > 0, func() {
			dupLast(fs.provProof, "operations", "update")
			dropLast(fs.ch, "deltas")
		}},
		{"provisional-proof-update-count-less", w.nUpdate > 0, func() { dropLast(fs.provProof, "operations", "update"); fs.count-- }},
		{"provisional-proof-update-count-more", w.nUpdate > 0, func() { dupLast(fs.provProof, "operations", "update") }},
		{"index-recover-count-less", w.nRecover > 1, func() { dropLast(fs.core, "operations", "recover"); fs.count-- }},
		{"chunk-delta-count-less", fs.ch != nil && len(list(fs.ch, "deltas")) > 0, func() { dropLast(fs.ch, "deltas"); fs.count-- }},
		{"chunk-delta-count-more", fs.ch != nil && len(list(fs.ch, "deltas")) > 0, func() { dupLast(fs.ch, "deltas"); fs.count++ }},
		{"index-update-count", w.nUpdate > 0, func() { dupLast(fs.provIndex, "operations", "update"); fs.count++ }},
		{"duplicate-suffix-deactivate", w.nDeact > 0, func() {
			dupLast(fs.core, "operations", "deactivate")
			dupLast(fs.coreProof, "operations", "deactivate")
			fs.count++
		}},
		{"duplicate-suffix-update", w.nUpdate > 0, func() {
			dupLast(fs.provIndex, "operations", "update")
			dupLast(fs.provProof, "operations", "update")
			dupLast(fs.ch, "deltas")
			fs.count++
		}},
		{"duplicate-suffix-recover", w.nRecover > 0, func() {
			dupLast(fs.core, "operations", "recover")
			dupLast(fs.coreProof, "operations", "recover")
			// one more delta, placed with the recover deltas (after the creates)
			d := list(fs.ch, "deltas")
			at := w.nCreate + w.nRecover
			d2 := append(append(append([]interface{}{}, d[:at]...), deepCopyJSON(d[at-1])), d[at:]...)
			setList(fs.ch, d2, "deltas")
			fs.count++
		}},
		{"duplicate-suffix-across-types", w.nUpdate > 0 && w.nDeact > 0, func() {
			// the DID of a deactivate also appears as an update (consistent counts everywhere)
			deact := list(fs.core, "operations", "deactivate")
			upd := list(fs.provIndex, "operations", "update")
			um, _ := upd[len(upd)-1].(map[string]interface{})
			dm, _ := deact[0].(map[string]interface{})
			um["didSuffix"] = dm["didSuffix"]
		}},
		{"retargeted-suffix", len(w.baseline) > 1 && w.nRecover+w.nUpdate+w.nDeact > 0, func() {
			// one operation reference is given the DID suffix of ANOTHER operation of the batch (its own reveal value,
			// proof and delta stay): counts agree everywhere, the suffix appears twice
			type ref struct {
				m map[string]interface{}
			}

			var refs []ref

			for _, path := range [][]string{{"operations", "recover"}, {"operations", "deactivate"}} {
				for _, e := range list(fs.core, path...) {
					if em, ok := e.(map[string]interface{}); ok {
						refs = append(refs, ref{em})
					}
				}
			}

			if fs.provIndex != nil {
				for _, e := range list(fs.provIndex, "operations", "update") {
					if em, ok := e.(map[string]interface{}); ok {
						refs = append(refs, ref{em})
					}
				}
			}

			victim := refs[T.Draw(len(refs), "retarget.victim")].m
			own, _ := victim["didSuffix"].(string)

			var others []string

			for _, b := range w.baseline {
				if b.UniqueSuffix != own {
					others = append(others, b.UniqueSuffix)
				}
			}

			victim["didSuffix"] = others[T.Draw(len(others), "retarget.to")]
		}},
		{"deactivate-only-with-foreign-chunk", fs.provIndex == nil && w.nDeact > 0 && w.foreignDelta != nil, func() {
			// a core index holding only deactivates that nevertheless references a provisional index whose chunk
			// file carries a (valid) delta: zero create/recover/update operations versus one delta
			fs.ch = map[string]interface{}{"deltas": []interface{}{deepCopyJSON(w.foreignDelta)}}
			fs.provIndex = map[string]interface{}{"chunks": []interface{}{map[string]interface{}{"chunkFileUri": ""}}}
			fs.core["provisionalIndexFileUri"] = ""
		}},
		{"count-too-high", true, func() { fs.count++ }},
		{"count-too-low", orig.count > 1, func() { fs.count-- }},
		{"invalid-delta-in-chunk", fs.ch != nil && len(list(fs.ch, "deltas")) > 0, func() {
			d := list(fs.ch, "deltas")
			dm, _ := d[0].(map[string]interface{})
			dm["patches"] = []interface{}{}
		}},
		{"json-patch-with-null-member-in-chunk", fs.ch != nil && len(list(fs.ch, "deltas")) > 0, func() {
			// an ietf-json-patch whose path (or op) is null / whose value is an array of nulls
			d := list(fs.ch, "deltas")
			dm, _ := d[0].(map[string]interface{})
			bad := []interface{}{
				[]interface{}{map[string]interface{}{"op": "add", "path": nil, "value": "v"}},
				[]interface{}{map[string]interface{}{"op": nil, "path": "/x", "value": "v"}},
				[]interface{}{nil},
				[]interface{}{map[string]interface{}{"op": "add", "path": "/x", "value": "v", "from": nil}},
			}[T.Draw(4, "struct.jsonpatch.null")]
			dm["patches"] = []interface{}{map[string]interface{}{"action": "ietf-json-patch", "patches": bad}}
		}},
		{"null-delta-in-chunk", fs.ch != nil && len(list(fs.ch, "deltas")) > 0, func() {
			d := list(fs.ch, "deltas")
			d[len(d)-1] = nil
		}},
		{"garbage-signed-data", w.nDeact+w.nRecover > 0, func() {
			for _, t := range []string{"deactivate", "recover"} {
				if l := list(fs.coreProof, "operations", t); len(l) > 0 {
					l[0] = "not.a.jws"

					return
				}
			}
		}},
	}

	var avail []mut

	for _, m := range muts {
		if m.ok {
			avail = append(avail, m)
		}
	}

	m := avail[T.Draw(len(avail), "struct.pick")]
	m.do()

	anchor := w.store(fs)
	ops, err := w.read(w.proto, anchor, nil)
	w.k.Count("fault:byzantine-" + m.name)
	w.nontrivial = true
	// (for the JSON-patch mutation the verdict is the library validator's to give - the property only demands that the
	// read neither panics nor returns operations that violate the safety conditions)
	w.verdict(w.proto, "byzantine "+m.name, anchor, ops, err, m.name != "json-patch-with-null-member-in-chunk", false)
}

// randomEdit mutates one JSON node of one file (null, type confusion, deletion, retargeting).
func (w *hWorld) randomEdit(orig *hFileSet) {
	T := w.k.T
	fs := orig.clone()

	files := []map[string]interface{}{fs.core, fs.coreProof, fs.provIndex, fs.provProof, fs.ch}

	var present []map[string]interface{}

	for _, f := range files {
		if f != nil {
			present = append(present, f)
		}
	}

	target := present[T.Draw(len(present), "edit.file")]

	// collect all (container, key/index) slots
	type slot struct {
		m   map[string]interface{}
		k   string
		l   []interface{}
		idx int
	}

	var slots []slot

	var walk func(v interface{})

	walk = func(v interface{}) {
		switch x := v.(type) {
		case map[string]interface{}:
			keys := make([]string, 0, len(x))
			for k := range x {
				keys = append(keys, k)
			}

			sortStrings(keys)

			for _, k := range keys {
				slots = append(slots, slot{m: x, k: k})
				walk(x[k])
			}
		case []interface{}:
			for i := range x {
				slots = append(slots, slot{l: x, idx: i})
				walk(x[i])
			}
		}
	}

	walk(target)

	if len(slots) == 0 {
		return
	}

	s := slots[T.Draw(len(slots), "edit.slot")]
	vals := []interface{}{nil, 7.0, "x", true, []interface{}{}, map[string]interface{}{}, []interface{}{nil}, w.uris["core"], strings.Repeat("A", 300), -1.0, map[string]interface{}{"suffixData": nil}}
	v := vals[T.Draw(len(vals), "edit.value")]
	del := T.Draw(4, "edit.delete") == 0

	switch {
	case s.m != nil && del:
		delete(s.m, s.k)
	case s.m != nil:
		s.m[s.k] = v
	default:
		s.l[s.idx] = v
	}

	anchor := w.store(fs)
	ops, err := w.read(w.proto, anchor, nil)
	w.k.Count("fault:byzantine-random-edit")
	w.nontrivial = true
	w.verdict(w.proto, "random-edit", anchor, ops, err, false, false)
}

// gzipStored is a valid gzip stream of data without compression (larger than the compressed original).
func gzipStored(data []byte) []byte {
	var buf bytes.Buffer

	zw, _ := gzip.NewWriterLevel(&buf, gzip.NoCompression)
	_, _ = zw.Write(data)
	_ = zw.Close()

	return buf.Bytes()
}

func sortStrings(s []string) {
	for i := 1; i < len(s); i++ {
		for j := i; j > 0 && s[j] < s[j-1]; j-- {
			s[j], s[j-1] = s[j-1], s[j]
		}
	}
}

func init() {
	register("C14", Scenario{Name: "H-hostile-cas", World: "H", Weight: 1, Run: runWorldH})
}
