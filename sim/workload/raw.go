package workload

import (
	"encoding/base64"
	"encoding/json"
	"errors"
	"strings"

	"github.com/trustbloc/sidetree-core-go/pkg/api/operation"
	"github.com/trustbloc/sidetree-core-go/pkg/canonicalizer"
	"github.com/trustbloc/sidetree-core-go/pkg/hashing"
	"github.com/trustbloc/sidetree-core-go/pkg/patch"
	"github.com/trustbloc/sidetree-core-go/pkg/versions/1_0/model"
)

// RawSpec builds requests the client library would refuse to build (misbehaving controllers,
// adversaries, Byzantine writers). Every deviation from an honest request is explicit.
type RawSpec struct {
	Type   operation.Type
	Suffix string
	Hash   uint
	// RevealHash: the algorithm of the reveal value (0 = Hash).
	RevealHash uint
	// Key placed in the signed data (update key / recovery key).
	RevealKey *Key
	// SignWith signs the JWS (default: RevealKey).
	SignWith *Key
	// RevealOf: the request's reveal value is computed from this key (default: RevealKey).
	RevealOf *Key

	NextUpdateCommit   string
	NextRecoveryCommit string
	Patches            []patch.Patch
	AnchorOrigin       interface{}
	From, Until        int64

	// RequestDelta, when set, is put into the request instead of the delta that was hashed/signed.
	RequestDelta *model.DeltaModel
	// NoPatches builds a delta without patches (invalid delta whose hash still matches).
	NoPatches bool
	// NoDelta omits the delta member from the request altogether (create only: the request still parses in batch mode).
	NoDelta bool
	// CorruptSig flips a bit of the signature.
	CorruptSig bool
	// SignedSuffix overrides the DID suffix inside deactivate signed data.
	SignedSuffix string
	// SuffixType is the optional entity type in a create's suffix data.
	SuffixType string
}

// SignCompact produces a compact JWS exactly the way the repository's signing utility does
// (protected header = signer headers, JSON with sorted member names).
func SignCompact(k *Key, payload []byte) (string, error) {
	hb, err := json.Marshal(k.Signer.Headers())
	if err != nil {
		return "", err
	}

	input := base64.RawURLEncoding.EncodeToString(hb) + "." + base64.RawURLEncoding.EncodeToString(payload)

	sig, err := k.Signer.Sign([]byte(input))
	if err != nil {
		return "", err
	}

	return input + "." + base64.RawURLEncoding.EncodeToString(sig), nil
}

// BuildRaw builds the request.
func BuildRaw(s *RawSpec) ([]byte, error) {
	signer := s.SignWith
	if signer == nil {
		signer = s.RevealKey
	}

	revealOf := s.RevealOf
	if revealOf == nil {
		revealOf = s.RevealKey
	}

	revealHash := s.RevealHash
	if revealHash == 0 {
		revealHash = s.Hash
	}

	delta := &model.DeltaModel{UpdateCommitment: s.NextUpdateCommit, Patches: s.Patches}
	if s.NoPatches {
		delta.Patches = nil
	}

	reqDelta := delta
	if s.RequestDelta != nil {
		reqDelta = s.RequestDelta
	}

	if s.NoDelta {
		reqDelta = nil
	}

	var deltaHash string

	if s.Type != operation.TypeDeactivate {
		var err error

		deltaHash, err = hashing.CalculateModelMultihash(delta, s.Hash)
		if err != nil {
			return nil, err
		}
	}

	sign := func(m interface{}) (string, error) {
		payload, err := canonicalizer.MarshalCanonical(m)
		if err != nil {
			return "", err
		}

		c, err := SignCompact(signer, payload)
		if err != nil {
			return "", err
		}

		if s.CorruptSig {
			c = CorruptSignature(c)
		}

		return c, nil
	}

	switch s.Type {
	case operation.TypeCreate:
		return canonicalizer.MarshalCanonical(&model.CreateRequest{
			Operation:  operation.TypeCreate,
			Delta:      reqDelta,
			SuffixData: &model.SuffixDataModel{DeltaHash: deltaHash, RecoveryCommitment: s.NextRecoveryCommit, AnchorOrigin: s.AnchorOrigin, Type: s.SuffixType},
		})
	case operation.TypeUpdate:
		sd, err := sign(&model.UpdateSignedDataModel{DeltaHash: deltaHash, UpdateKey: s.RevealKey.JWK, AnchorFrom: s.From, AnchorUntil: s.Until})
		if err != nil {
			return nil, err
		}

		return canonicalizer.MarshalCanonical(&model.UpdateRequest{
			Operation: operation.TypeUpdate, DidSuffix: s.Suffix, RevealValue: revealOf.Reveal(revealHash), Delta: reqDelta, SignedData: sd,
		})
	case operation.TypeRecover:
		sd, err := sign(&model.RecoverSignedDataModel{
			DeltaHash: deltaHash, RecoveryKey: s.RevealKey.JWK, RecoveryCommitment: s.NextRecoveryCommit,
			AnchorOrigin: s.AnchorOrigin, AnchorFrom: s.From, AnchorUntil: s.Until,
		})
		if err != nil {
			return nil, err
		}

		return canonicalizer.MarshalCanonical(&model.RecoverRequest{
			Operation: operation.TypeRecover, DidSuffix: s.Suffix, RevealValue: revealOf.Reveal(revealHash), Delta: reqDelta, SignedData: sd,
		})
	default:
		signedSuffix := s.Suffix
		if s.SignedSuffix != "" {
			signedSuffix = s.SignedSuffix
		}

		sd, err := sign(&model.DeactivateSignedDataModel{
			DidSuffix: signedSuffix, RevealValue: revealOf.Reveal(revealHash), RecoveryKey: s.RevealKey.JWK, AnchorFrom: s.From, AnchorUntil: s.Until,
		})
		if err != nil {
			return nil, err
		}

		return canonicalizer.MarshalCanonical(&model.DeactivateRequest{
			Operation: operation.TypeDeactivate, DidSuffix: s.Suffix, RevealValue: revealOf.Reveal(revealHash), SignedData: sd,
		})
	}
}

// CorruptSignature flips one bit in the signature part of a compact JWS.
func CorruptSignature(compact string) string {
	parts := strings.Split(compact, ".")
	if len(parts) != 3 {
		return compact
	}

	sig, err := base64.RawURLEncoding.DecodeString(parts[2])
	if err != nil || len(sig) == 0 {
		return compact
	}

	sig[len(sig)/2] ^= 0x10
	parts[2] = base64.RawURLEncoding.EncodeToString(sig)

	return strings.Join(parts, ".")
}

// TamperPayload re-encodes the payload of a compact JWS with one member changed, keeping the
// original signature. mutate receives the decoded payload object.
func TamperPayload(compact string, mutate func(m map[string]interface{})) string {
	parts := strings.Split(compact, ".")
	if len(parts) != 3 {
		return compact
	}

	raw, err := base64.RawURLEncoding.DecodeString(parts[1])
	if err != nil {
		return compact
	}

	var m map[string]interface{}
	if json.Unmarshal(raw, &m) != nil {
		return compact
	}

	mutate(m)

	nb, err := canonicalizer.MarshalCanonical(m)
	if err != nil {
		return compact
	}

	parts[1] = base64.RawURLEncoding.EncodeToString(nb)

	return strings.Join(parts, ".")
}

// TamperHeader replaces the protected header (e.g. adds a kid) keeping payload and signature.
func TamperHeader(compact string, hdr map[string]interface{}) string {
	parts := strings.Split(compact, ".")
	if len(parts) != 3 {
		return compact
	}

	hb, _ := json.Marshal(hdr)
	parts[0] = base64.RawURLEncoding.EncodeToString(hb)

	return strings.Join(parts, ".")
}

// RespaceHeader re-serialises the protected header of a compact JWS with a blank after the first colon, keeping payload
// and signature: the header still parses to the same members, but it is no longer the octet string that was signed.
func RespaceHeader(compact string) string {
	parts := strings.Split(compact, ".")
	if len(parts) != 3 {
		return compact
	}

	hb, err := base64.RawURLEncoding.DecodeString(parts[0])
	if err != nil {
		return compact
	}

	parts[0] = base64.RawURLEncoding.EncodeToString([]byte(strings.Replace(string(hb), `":`, `": `, 1)))

	return strings.Join(parts, ".")
}

// ResignWithHeader signs the payload of a compact JWS anew under the given protected header octets (any member order or
// spacing a signer may choose): a valid JWS over exactly what is transmitted.
func ResignWithHeader(k *Key, compact string, header []byte) (string, error) {
	parts := strings.Split(compact, ".")
	if len(parts) != 3 {
		return "", errors.New("not a compact JWS")
	}

	input := base64.RawURLEncoding.EncodeToString(header) + "." + parts[1]

	sig, err := k.Signer.Sign([]byte(input))
	if err != nil {
		return "", err
	}

	return input + "." + base64.RawURLEncoding.EncodeToString(sig), nil
}

// ReplaceSignedData rebuilds a request (update/recover/deactivate) with another signedData string.
func ReplaceSignedData(req []byte, signedData string) []byte {
	var m map[string]interface{}
	if json.Unmarshal(req, &m) != nil {
		return req
	}

	m["signedData"] = signedData

	b, err := canonicalizer.MarshalCanonical(m)
	if err != nil {
		return req
	}

	return b
}

// SignedDataOf extracts the signedData member of a request.
func SignedDataOf(req []byte) string {
	var m map[string]interface{}
	if json.Unmarshal(req, &m) != nil {
		return ""
	}

	s, _ := m["signedData"].(string)

	return s
}
