// Package workload builds real Sidetree requests with the repository's own client library and
// signers, from keys whose material is a function of the run's crypto seed.
package workload

import (
	"crypto/ecdsa"
	"crypto/ed25519"
	"crypto/elliptic"
	"crypto/rand"
	"crypto/sha256"
	"encoding/base64"
	"encoding/json"
	"fmt"
	"strings"

	"github.com/btcsuite/btcd/btcec"
	"github.com/btcsuite/btcutil/base58"
	"github.com/multiformats/go-multibase"

	"github.com/trustbloc/sidetree-core-go/pkg/api/operation"
	"github.com/trustbloc/sidetree-core-go/pkg/commitment"
	"github.com/trustbloc/sidetree-core-go/pkg/encoder"
	"github.com/trustbloc/sidetree-core-go/pkg/jws"
	"github.com/trustbloc/sidetree-core-go/pkg/patch"
	"github.com/trustbloc/sidetree-core-go/pkg/util/ecsigner"
	"github.com/trustbloc/sidetree-core-go/pkg/util/edsigner"
	"github.com/trustbloc/sidetree-core-go/pkg/util/pubkey"
	"github.com/trustbloc/sidetree-core-go/pkg/versions/1_0/client"
)

// KeyType enumerates the supported signing key types.
type KeyType int

// Key types.
const (
	Ed25519 KeyType = iota
	P256
	Secp256k1
	P384
	P521
	NumKeyTypes
)

func (k KeyType) String() string {
	return [...]string{"Ed25519", "P-256", "secp256k1", "P-384", "P-521"}[k]
}

// Alg is the JWS algorithm of the key type.
func (k KeyType) Alg() string {
	return [...]string{"EdDSA", "ES256", "ES256K", "ES384", "ES512"}[k]
}

// Key is a signing key with its public JWK.
type Key struct {
	ID     int
	Type   KeyType
	JWK    *jws.JWK
	Signer client.Signer
	commit map[uint]string
	reveal map[uint]string
}

// KeyGen creates keys; all randomness comes from crypto/rand, which the harness has replaced by
// a seeded deterministic stream (testing/cryptotest.SetGlobalRandom).
type KeyGen struct {
	n int
}

// New creates a key. nonce adds the optional 16-byte JWK nonce.
func (g *KeyGen) New(kt KeyType, nonce bool) *Key {
	g.n++
	k := &Key{ID: g.n, Type: kt, commit: map[uint]string{}, reveal: map[uint]string{}}

	// every third key signs with a kid in the protected header (alg and kid are the only members allowed there)
	kid := ""
	if g.n%3 == 0 {
		kid = fmt.Sprintf("key-%d", g.n)
		if g.n%2 == 0 {
			// a DID URL with a query: characters that JSON encoders may or may not escape
			kid = fmt.Sprintf("did:sim:ctrl?service=keys&relativeRef=%%2Fk<%d>#key-%d", g.n, g.n)
		}
	}

	var pub interface{}

	switch kt {
	case Ed25519:
		p, priv, err := ed25519.GenerateKey(rand.Reader)
		must(err)

		pub = p
		k.Signer = edsigner.New(priv, kt.Alg(), kid)
	default:
		var curve elliptic.Curve

		switch kt {
		case P256:
			curve = elliptic.P256()
		case P384:
			curve = elliptic.P384()
		case P521:
			curve = elliptic.P521()
		default:
			curve = btcec.S256()
		}

		priv, err := ecdsa.GenerateKey(curve, rand.Reader)
		must(err)

		pub = &priv.PublicKey
		k.Signer = ecsigner.New(priv, kt.Alg(), kid)
	}

	j, err := pubkey.GetPublicKeyJWK(pub)
	must(err)

	if nonce {
		b := make([]byte, 16)
		_, err = rand.Read(b)
		must(err)

		j.Nonce = encoder.EncodeToString(b)
	}

	k.JWK = j

	return k
}

// Commitment of the key under the given multihash code.
func (k *Key) Commitment(code uint) string {
	if c, ok := k.commit[code]; ok {
		return c
	}

	c, err := commitment.GetCommitment(k.JWK, code)
	must(err)

	k.commit[code] = c

	return c
}

// Reveal value of the key under the given multihash code.
func (k *Key) Reveal(code uint) string {
	if c, ok := k.reveal[code]; ok {
		return c
	}

	c, err := commitment.GetRevealValue(k.JWK, code)
	must(err)

	k.reveal[code] = c

	return c
}

func must(err error) {
	if err != nil {
		panic(err)
	}
}

// OpSpec describes one honest request to be built with the client library.
type OpSpec struct {
	// RevealHash: the multihash algorithm of the reveal value (the algorithm of the commitment being consumed); 0 = Hash.
	RevealHash uint

	Type         operation.Type
	Suffix       string
	Hash         uint
	SignKey      *Key // revealed + signing key (update key for update, recovery key for recover/deactivate)
	NextUpdate   *Key
	NextRecovery *Key
	Patches      []patch.Patch
	// OpaqueDocument, when set, is handed to the client library instead of Patches (create / recover).
	OpaqueDocument string
	AnchorOrigin   interface{}
	From, Until    int64
	// SuffixType is the optional entity type carried in a create's suffix data.
	SuffixType string
}

// Build produces the request bytes with the real client library.
func Build(s *OpSpec) ([]byte, error) {
	revealHash := s.RevealHash
	if revealHash == 0 {
		revealHash = s.Hash
	}

	switch s.Type {
	case operation.TypeCreate:
		return client.NewCreateRequest(&client.CreateRequestInfo{
			Patches:            s.Patches,
			OpaqueDocument:     s.OpaqueDocument,
			RecoveryCommitment: s.NextRecovery.Commitment(s.Hash),
			UpdateCommitment:   s.NextUpdate.Commitment(s.Hash),
			AnchorOrigin:       s.AnchorOrigin,
			Type:               s.SuffixType,
			MultihashCode:      s.Hash,
		})
	case operation.TypeUpdate:
		return client.NewUpdateRequest(&client.UpdateRequestInfo{
			DidSuffix:        s.Suffix,
			Patches:          s.Patches,
			UpdateCommitment: s.NextUpdate.Commitment(s.Hash),
			UpdateKey:        s.SignKey.JWK,
			MultihashCode:    s.Hash,
			Signer:           s.SignKey.Signer,
			RevealValue:      s.SignKey.Reveal(revealHash),
			AnchorFrom:       s.From,
			AnchorUntil:      s.Until,
		})
	case operation.TypeRecover:
		return client.NewRecoverRequest(&client.RecoverRequestInfo{
			DidSuffix:          s.Suffix,
			RecoveryKey:        s.SignKey.JWK,
			Patches:            s.Patches,
			OpaqueDocument:     s.OpaqueDocument,
			RecoveryCommitment: s.NextRecovery.Commitment(s.Hash),
			UpdateCommitment:   s.NextUpdate.Commitment(s.Hash),
			AnchorOrigin:       s.AnchorOrigin,
			AnchorFrom:         s.From,
			AnchorUntil:        s.Until,
			MultihashCode:      s.Hash,
			Signer:             s.SignKey.Signer,
			RevealValue:        s.SignKey.Reveal(revealHash),
		})
	case operation.TypeDeactivate:
		return client.NewDeactivateRequest(&client.DeactivateRequestInfo{
			DidSuffix:   s.Suffix,
			RecoveryKey: s.SignKey.JWK,
			Signer:      s.SignKey.Signer,
			RevealValue: s.SignKey.Reveal(revealHash),
			AnchorFrom:  s.From,
			AnchorUntil: s.Until,
		})
	}

	return nil, fmt.Errorf("unknown type %s", s.Type)
}

// ---------------------------------------------------------------- patches the model can predict

// PatchKind enumerates generated patch shapes.
type PatchKind int

// Patch kinds.
const (
	AddKey PatchKind = iota
	RemoveKey
	AddSvc
	RemoveSvc
	AddNote  // ietf-json-patch: add /note
	FailTest // ietf-json-patch that is valid but fails to apply
	ReplaceAll
	AddAKA
	RemoveAKA
	ReplaceNote // ietf-json-patch: replace /note (fails to apply when the member is absent)
	RemoveNote  // ietf-json-patch: remove /note (fails to apply when the member is absent)
	AddMember   // ietf-json-patch: add a top-level member named IDs[0] (any JSON string: the pointer must be escaped) with value Mark
	AddTags     // ietf-json-patch: add /tags, a list of the strings IDs
	// MoveNoteIntoTags is the ietf-json-patch [{"op":"move","from":"/note","path":"/tags/1"}]: the note is removed and
	// INSERTED before the second tag (RFC 6902, 4.1 and 4.4); it fails to apply without a note or without a first tag
	MoveNoteIntoTags
)

// OddMemberNames are legal top-level member names of an opaque document that need escaping in a JSON pointer or a JSON string.
var OddMemberNames = []string{"https://schema.org/description", "rev~1", "a~b/c", `say "hi"`, "caf\u00e9 & more", "serviceTerms", "publicKeyNote"}

// PatchDesc is the symbolic description of one generated patch.
type PatchDesc struct {
	Kind PatchKind
	IDs  []string // ids (or URIs) concerned
	Mark string   // unique marker carried in the entry (key material / endpoint / note)
}

var keyIDs = []string{"k1", "k2", "k3", "k4"}
var svcIDs = []string{"s1", "s2", "s3"}

// KeyIDs / SvcIDs are the small id pools (collisions on purpose).
func KeyIDs() []string { return keyIDs }

// SvcIDs is the service id pool.
func SvcIDs() []string { return svcIDs }

var purposeSets = []string{
	`["authentication"]`, `["assertionMethod"]`, `["authentication","keyAgreement"]`, `[]`,
	`["capabilityDelegation","capabilityInvocation"]`, `["authentication","assertionMethod","keyAgreement"]`,
}

func idMarkHash(id, mark string) int {
	h := 0
	for _, c := range id + mark {
		h = (h*31 + int(c)) & 0xffffff
	}

	return h
}

// Document keys come in several shapes (chosen by (id, marker)), so that documents differ in more than ids and every
// key form the protocol allows passes through intake, composer and transformer:
//
//	0 JsonWebKey2020, EC JWK                      (marker in x; the validator only checks presence)
//	1 EcdsaSecp256k1VerificationKey2019, EC JWK   (marker in x)
//	2 Ed25519VerificationKey2018, OKP/Ed25519 JWK (shown externally as publicKeyBase58)
//	3 Ed25519VerificationKey2020, OKP/Ed25519 JWK (shown externally as publicKeyMultibase)
//	4 X25519KeyAgreementKey2019, OKP/X25519 JWK   (single-coordinate key: no y member)
//	5 JsonWebKey2020, OKP/X25519 JWK
//	6 Ed25519VerificationKey2018, publicKeyBase58
//
// For shapes 2-6 the key material is derived from (id, marker); markOf maps it back.
const keyShapes = 7

var (
	verificationPurposeSets = []string{`["authentication"]`, `["assertionMethod"]`, `[]`, `["capabilityDelegation","capabilityInvocation"]`, `["authentication","assertionMethod"]`}
	agreementPurposeSets    = []string{`["keyAgreement"]`, `[]`}
	markOf                  = map[string]string{}
)

func keyShape(id, mark string) int { return (idMarkHash(id, mark) / 7) % keyShapes }

func keyMaterial(id, mark string) []byte {
	h := sha256.Sum256([]byte("key|" + id + "|" + mark))

	return h[:]
}

func keyPurposeSet(id, mark string) string {
	h := idMarkHash(id, mark)

	switch keyShape(id, mark) {
	case 2, 3, 6:
		return verificationPurposeSets[h%len(verificationPurposeSets)]
	case 4:
		return agreementPurposeSets[h%len(agreementPurposeSets)]
	default:
		return purposeSets[h%len(purposeSets)]
	}
}

func keyJSON(id, mark string) string {
	h := idMarkHash(id, mark)

	purposes := `"purposes":` + keyPurposeSet(id, mark) + ","
	if keyPurposeSet(id, mark) == "[]" {
		purposes = "" // a key without purposes: a plain verification method (an empty list would be refused)
	}

	raw := keyMaterial(id, mark)
	x := base64.RawURLEncoding.EncodeToString(raw)

	switch keyShape(id, mark) {
	case 2, 3:
		markOf[x] = mark
		typ := []string{"", "", "Ed25519VerificationKey2018", "Ed25519VerificationKey2020"}[keyShape(id, mark)]

		return fmt.Sprintf(`{"id":%q,"type":%q,%s"publicKeyJwk":{"kty":"OKP","crv":"Ed25519","x":%q}}`, id, typ, purposes, x)
	case 4, 5:
		markOf[x] = mark
		typ := []string{"X25519KeyAgreementKey2019", "JsonWebKey2020"}[keyShape(id, mark)-4]

		return fmt.Sprintf(`{"id":%q,"type":%q,%s"publicKeyJwk":{"kty":"OKP","crv":"X25519","x":%q}}`, id, typ, purposes, x)
	case 6:
		b58 := base58.Encode(raw)
		markOf[b58] = mark

		return fmt.Sprintf(`{"id":%q,"type":"Ed25519VerificationKey2018",%s"publicKeyBase58":%q}`, id, purposes, b58)
	}

	typ := []string{"JsonWebKey2020", "JsonWebKey2020", "EcdsaSecp256k1VerificationKey2019"}[h%3]

	return fmt.Sprintf(`{"id":%q,"type":%q,%s"publicKeyJwk":{"kty":"EC","crv":"P-256","x":%q,"y":"nM84jDHCMOTGTh_ZdHq4dBBdo4Z5PkEOW9jA8z8IsGc"}}`, id, typ, purposes, mark)
}

// KeyMark extracts the marker from a document key entry (internal or external form): the x coordinate, base58 or
// multibase value, mapped back through the material table where the material was derived.
func KeyMark(entry map[string]interface{}) string {
	v := ""

	if jwk, ok := entry["publicKeyJwk"].(map[string]interface{}); ok {
		v, _ = jwk["x"].(string)
	} else if s, ok := entry["publicKeyBase58"].(string); ok {
		v = s
	} else if s, ok := entry["publicKeyMultibase"].(string); ok {
		v = s
	}

	mark := v
	if m, ok := markOf[v]; ok {
		mark = m
	}

	// an internal-form entry (no controller member) must be exactly what keyJSON generated for (id, marker)
	if _, external := entry["controller"]; !external {
		id, _ := entry["id"].(string)

		var want map[string]interface{}
		if json.Unmarshal([]byte(keyJSON(id, mark)), &want) == nil {
			gb, _ := json.Marshal(entry)
			wb, _ := json.Marshal(want)

			if string(gb) != string(wb) {
				return "?" + string(gb)
			}
		}
	}

	return mark
}

// ExternalKeyValue is what the resolver's external document must show for the key (id, marker): the member name and
// its value (JWK x coordinate, base58 or multibase string).
func ExternalKeyValue(id, mark string) (string, string) {
	raw := keyMaterial(id, mark)

	switch keyShape(id, mark) {
	case 2, 6:
		return "publicKeyBase58", base58.Encode(raw)
	case 3:
		mb, _ := multibase.Encode(multibase.Base58BTC, raw)

		return "publicKeyMultibase", mb
	case 4, 5:
		return "publicKeyJwk", base64.RawURLEncoding.EncodeToString(raw)
	}

	return "publicKeyJwk", mark
}

// Service endpoints come in several shapes chosen by (id, marker); the marker is always recoverable (SvcMark):
//
//	0 https URL                                   1 https URL with a query string containing '&'
//	2 authority-less URI (did:..., as DIDComm mediators use)   3 array of URIs (https + urn)
//	4 object with a uri member and further members         5 array mixing a URI and an object
func svcEndpointJSON(id, mark string) string {
	switch (idMarkHash(id, mark) / 11) % 6 {
	case 5: // a set mixing a plain URI and an endpoint object
		return fmt.Sprintf(`["https://sim.example/%s",{"uri":"https://sim.example/%s","accept":["didcomm/v2"]}]`, mark, mark)
	case 1:
		return fmt.Sprintf(`"https://sim.example/%s?tenant=a&mode=b"`, mark)
	case 2:
		return fmt.Sprintf(`"did:sim:mediator:%s"`, mark)
	case 3:
		return fmt.Sprintf(`["https://sim.example/%s","urn:sim:%s"]`, mark, mark)
	case 4:
		return fmt.Sprintf(`{"uri":"https://sim.example/%s","accept":["didcomm/v2","a&b"],"routingKeys":[]}`, mark)
	}

	return fmt.Sprintf(`"https://sim.example/%s"`, mark)
}

// Service type, priority and an extra member vary too: non-ASCII and escaped characters, numbers that a canonicaliser
// must format (fractions, exponents, negative values) - every hash in the system runs over this content.
var (
	svcTypes      = []string{"SimSvc", "OtherSvc", "Dienst-\u00fc\u20ac", "LinkedDomains"}
	svcPriorities = []string{"1", "0", "10", "2.5", "1e21", "0.000001", "-3", "4.0E+2", "1704153615000", "1704153619000", "123456789012345680000", "9007199254740991"}
	svcNotes      = []string{"", "", `"\u03c0 \u2260 3,14 \"quoted\" back\\slash tab\t end"`, `"\ud83d\ude00 <b>&amp;</b>"`}
)

func svcJSON(id, mark string) string {
	h := idMarkHash(id, mark)
	s := fmt.Sprintf(`{"id":%q,"type":"%s","serviceEndpoint":%s`, id, svcTypes[(h/3)%len(svcTypes)], svcEndpointJSON(id, mark))

	if (h/17)%3 != 0 {
		s += `,"priority":` + svcPriorities[(h/5)%len(svcPriorities)]
	}

	if n := svcNotes[(h/13)%len(svcNotes)]; n != "" {
		s += `,"description":` + n
	}

	// markers "w..." : a member full of large numbers, whose canonical spelling (all 21 digits) is much longer than the
	// spelling a client may choose (1e20)
	if strings.HasPrefix(mark, "w") {
		s += `,"weights":[` + strings.TrimSuffix(strings.Repeat(BigNumber+",", 40), ",") + `]`
	}

	return s + "}"
}

// BigNumber is 1e20 in canonical spelling.
const BigNumber = "100000000000000000000"

// SvcMark extracts the marker from a service entry (internal or external form), whatever shape its endpoint has, and
// checks that EVERY member of the entry is what svcJSON generated for (id, marker). An entry that deviates in any
// member is rendered verbatim, so that it shows up as a difference.
func SvcMark(entry map[string]interface{}) string {
	fromURI := func(u string) (string, bool) {
		switch {
		case strings.HasPrefix(u, "https://sim.example/"):
			u = strings.TrimPrefix(u, "https://sim.example/")
			if strings.HasSuffix(u, "?tenant=a&mode=b") {
				return strings.TrimSuffix(u, "?tenant=a&mode=b"), true
			}

			return u, !strings.ContainsAny(u, "?&")
		case strings.HasPrefix(u, "did:sim:mediator:"):
			return strings.TrimPrefix(u, "did:sim:mediator:"), true
		}

		return "", false
	}

	verbatim := func() string {
		b, _ := json.Marshal(entry)

		return "?" + string(b)
	}

	mark, ok := "", false

	switch ep := entry["serviceEndpoint"].(type) {
	case string:
		mark, ok = fromURI(ep)
	case []interface{}:
		if len(ep) > 0 {
			a, _ := ep[0].(string)
			mark, ok = fromURI(a)
		}
	case map[string]interface{}:
		u, _ := ep["uri"].(string)
		mark, ok = fromURI(u)
	}

	if !ok {
		return verbatim()
	}

	id, _ := entry["id"].(string)
	if i := strings.LastIndex(id, "#"); i >= 0 {
		id = id[i+1:]
	}

	var want map[string]interface{}
	if json.Unmarshal([]byte(svcJSON(id, mark)), &want) != nil {
		return verbatim()
	}

	// compare through JSON so that typed slices/maps inside the entry do not matter
	got := map[string]interface{}{}
	for k, v := range entry {
		got[k] = v
	}

	got["id"] = id
	gb, _ := json.Marshal(got)
	wb, _ := json.Marshal(want)

	if string(gb) != string(wb) {
		return verbatim()
	}

	return mark
}

// KeyPurposes returns the purposes keyJSON gives to the key (id, mark) – the relationship sections of the
// external document must reference the key from exactly these.
func KeyPurposes(id, mark string) []string {
	var out []string
	_ = json.Unmarshal([]byte(keyPurposeSet(id, mark)), &out)

	return out
}

// ToPatch turns a description into a real patch.Patch through the public constructors.
func ToPatch(d PatchDesc) (patch.Patch, error) {
	switch d.Kind {
	case AddKey:
		s := "["

		for i, id := range d.IDs {
			if i > 0 {
				s += ","
			}

			s += keyJSON(id, d.Mark)
		}

		return patch.NewAddPublicKeysPatch(s + "]")
	case RemoveKey:
		b, _ := json.Marshal(d.IDs)

		return patch.NewRemovePublicKeysPatch(string(b))
	case AddSvc:
		s := "["

		for i, id := range d.IDs {
			if i > 0 {
				s += ","
			}

			s += svcJSON(id, d.Mark)
		}

		return patch.NewAddServiceEndpointsPatch(s + "]")
	case RemoveSvc:
		b, _ := json.Marshal(d.IDs)

		return patch.NewRemoveServiceEndpointsPatch(string(b))
	case AddMember:
		ptr := "/" + strings.NewReplacer("~", "~0", "/", "~1").Replace(d.IDs[0])
		pb, _ := json.Marshal(ptr)
		vb, _ := json.Marshal(d.Mark)

		if len(d.IDs) > 1 { // the value as JSON text (not a string)
			vb = []byte(d.IDs[1])
		}

		return patch.NewJSONPatch(fmt.Sprintf(`[{"op":"add","path":%s,"value":%s}]`, pb, vb))
	case AddTags:
		vb, _ := json.Marshal(d.IDs)

		return patch.NewJSONPatch(fmt.Sprintf(`[{"op":"add","path":"/tags","value":%s}]`, vb))
	case MoveNoteIntoTags:
		return patch.NewJSONPatch(`[{"op":"move","from":"/note","path":"/tags/1"}]`)
	case AddNote:
		return patch.NewJSONPatch(fmt.Sprintf(`[{"op":"add","path":"/note","value":%q}]`, d.Mark))
	case FailTest:
		// a valid ietf-json-patch that cannot be applied - in several ways (the marker picks one)
		shapes := []string{
			`[{"op":"remove","path":"/doesNotExist/x"}]`,
			`[{"op":"add","path":"/tmpA","value":null},{"op":"add","path":"/tmpA/b","value":1}]`,
			`[{"op":"test","path":"/tmpX"}]`,
			`[{"op":"add","path":"/tmpL","value":[1]},{"op":"replace","path":"/tmpL/-1","value":2}]`,
			`[{"op":"move","from":"/doesNotExist","path":"/tmpM"}]`,
			`[{"op":"copy","from":"/doesNotExist/deeper","path":"/tmpC"}]`,
		}

		return patch.NewJSONPatch(shapes[idMarkHash("fail", d.Mark)%len(shapes)])
	case ReplaceNote:
		return patch.NewJSONPatch(fmt.Sprintf(`[{"op":"test","path":"/note","value":%q},{"op":"replace","path":"/note","value":%q}]`, d.IDs[0], d.Mark))
	case RemoveNote:
		return patch.NewJSONPatch(`[{"op":"remove","path":"/note"}]`)
	case ReplaceAll:
		if len(d.IDs) == 0 {
			return patch.NewReplacePatch("{}") // reset to the empty document
		}

		doc := `{"publicKeys":[`

		for i, id := range d.IDs {
			if i > 0 {
				doc += ","
			}

			doc += keyJSON(id, d.Mark)
		}

		doc += `],"services":[` + svcJSON("s1", d.Mark) + `]}`

		return patch.NewReplacePatch(doc)
	case AddAKA:
		b, _ := json.Marshal(d.IDs)

		return patch.NewAddAlsoKnownAs(string(b))
	case RemoveAKA:
		b, _ := json.Marshal(d.IDs)

		return patch.NewRemoveAlsoKnownAs(string(b))
	}

	return nil, fmt.Errorf("unknown patch kind %d", d.Kind)
}

// ToPatches converts a list.
func ToPatches(ds []PatchDesc) ([]patch.Patch, error) {
	out := make([]patch.Patch, 0, len(ds))

	for _, d := range ds {
		p, err := ToPatch(d)
		if err != nil {
			return nil, err
		}

		out = append(out, p)
	}

	return out, nil
}

// OpaqueDoc renders an opaque document for the client library and returns the patch descriptions the
// library is expected to derive from it (members in sorted order: alsoKnownAs, publicKey, service; other
// members become one JSON patch at the end).
func OpaqueDoc(keyIDs, svcIDs, uris []string, note, mark string) (string, []PatchDesc) {
	var parts []string

	var descs []PatchDesc

	if len(uris) > 0 {
		b, _ := json.Marshal(uris)
		parts = append(parts, `"alsoKnownAs":`+string(b))
		descs = append(descs, PatchDesc{Kind: AddAKA, IDs: uris, Mark: mark})
	}

	if len(keyIDs) > 0 {
		s := ""

		for i, id := range keyIDs {
			if i > 0 {
				s += ","
			}

			s += keyJSON(id, mark)
		}

		parts = append(parts, `"publicKey":[`+s+`]`)
		descs = append(descs, PatchDesc{Kind: AddKey, IDs: keyIDs, Mark: mark})
	}

	if len(svcIDs) > 0 {
		s := ""

		for i, id := range svcIDs {
			if i > 0 {
				s += ","
			}

			s += svcJSON(id, mark)
		}

		parts = append(parts, `"service":[`+s+`]`)
		descs = append(descs, PatchDesc{Kind: AddSvc, IDs: svcIDs, Mark: mark})
	}

	if note != "" {
		// "name\x00value": the member carries another name than "note"
		if i := strings.IndexByte(note, 0); i > 0 {
			name, val := note[:i], note[i+1:]
			nb, _ := json.Marshal(name)
			vb, _ := json.Marshal(val)

			if strings.HasPrefix(val, "\x00") { // "name\x00\x00json": the value is JSON text, e.g. an empty list
				vb = []byte(val[1:])
				descs = append(descs, PatchDesc{Kind: AddMember, IDs: []string{name, val[1:]}})
			} else {
				descs = append(descs, PatchDesc{Kind: AddMember, IDs: []string{name}, Mark: val})
			}

			parts = append(parts, string(nb)+":"+string(vb))
		} else {
			parts = append(parts, fmt.Sprintf(`"note":%q`, note))
			descs = append(descs, PatchDesc{Kind: AddNote, Mark: note})
		}
	}

	doc := "{"

	for i, p := range parts {
		if i > 0 {
			doc += ","
		}

		doc += p
	}

	return doc + "}", descs
}
