// Package refmodel is the executable reference model: the Sidetree resolution state machine as
// the properties state it, over symbolic operation descriptors, plus an ordered-set document
// model. It is written from the property text, not from the repository's control flow, and it
// imports nothing from the repository except the patch descriptors of the workload package.
package refmodel

import (
	"encoding/base64"
	"fmt"
	"sort"
	"strings"

	"verifsim/workload"
)

// Entry is a key or service in the document model.
type Entry struct{ ID, Mark string }

// Doc is the ordered-set document model.
type Doc struct {
	Keys []Entry
	Svcs []Entry
	AKA  []string
	Note string
	// Tags: a free-form top-level list of strings (written and rearranged through ietf-json-patch)
	Tags []string
}

// Clone copies the document.
func (d Doc) Clone() Doc {
	return Doc{Keys: append([]Entry(nil), d.Keys...), Svcs: append([]Entry(nil), d.Svcs...), AKA: append([]string(nil), d.AKA...), Note: d.Note, Tags: append([]string(nil), d.Tags...)}
}

func (d Doc) String() string {
	note := d.Note
	if len(note) > 24 {
		note = fmt.Sprintf("%s…(%d chars)", note[:8], len(note))
	}

	if len(d.Tags) > 0 {
		return fmt.Sprintf("keys=%v svcs=%v aka=%v note=%q tags=%q", d.Keys, d.Svcs, d.AKA, note, d.Tags)
	}

	return fmt.Sprintf("keys=%v svcs=%v aka=%v note=%q", d.Keys, d.Svcs, d.AKA, note)
}

func upsert(list []Entry, id, mark string) []Entry {
	for i := range list {
		if list[i].ID == id {
			list[i].Mark = mark

			return list
		}
	}

	return append(list, Entry{id, mark})
}

func remove(list []Entry, ids []string) []Entry {
	out := list[:0:0]

	for _, e := range list {
		drop := false

		for _, id := range ids {
			if e.ID == id {
				drop = true
			}
		}

		if !drop {
			out = append(out, e)
		}
	}

	return out
}

// Apply applies a patch list atomically: either every patch applies or the document is unchanged
// and ok is false.
func (d Doc) Apply(ps []workload.PatchDesc) (Doc, bool) {
	r := d.Clone()

	for _, p := range ps {
		switch p.Kind {
		case workload.AddKey:
			for _, id := range p.IDs {
				r.Keys = upsert(r.Keys, id, p.Mark)
			}
		case workload.RemoveKey:
			r.Keys = remove(r.Keys, p.IDs)
		case workload.AddSvc:
			for _, id := range p.IDs {
				r.Svcs = upsert(r.Svcs, id, p.Mark)
			}
		case workload.RemoveSvc:
			r.Svcs = remove(r.Svcs, p.IDs)
		case workload.AddNote:
			r.Note = p.Mark
		case workload.FailTest:
			return d, false
		case workload.AddTags:
			r.Tags = append([]string(nil), p.IDs...)
		case workload.MoveNoteIntoTags:
			if r.Note == "" || len(r.Tags) < 1 {
				return d, false
			}

			r.Tags = append(append(append([]string(nil), r.Tags[0]), r.Note), r.Tags[1:]...)
			r.Note = ""
		case workload.ReplaceNote:
			// test /note == IDs[0], then replace: fails unless the note is present with exactly that value
			if r.Note == "" || len(p.IDs) == 0 || r.Note != p.IDs[0] {
				return d, false
			}

			r.Note = p.Mark
		case workload.RemoveNote:
			if r.Note == "" {
				return d, false
			}

			r.Note = ""
		case workload.ReplaceAll:
			r = Doc{}
			for _, id := range p.IDs {
				r.Keys = append(r.Keys, Entry{id, p.Mark})
			}

			r.Svcs = []Entry{{"s1", p.Mark}}

			if len(p.IDs) == 0 { // replace with the empty document
				r.Svcs = nil
			}
		case workload.AddAKA:
			for _, u := range p.IDs {
				found := false

				for _, e := range r.AKA {
					if e == u {
						found = true
					}
				}

				if !found {
					r.AKA = append(r.AKA, u)
				}
			}
		case workload.RemoveAKA:
			var out []string

			for _, e := range r.AKA {
				drop := false

				for _, u := range p.IDs {
					if e == u {
						drop = true
					}
				}

				if !drop {
					out = append(out, e)
				}
			}

			r.AKA = out
		}
	}

	return r, true
}

// DeltaClass classifies the delta of an operation.
type DeltaClass int

// Delta classes.
const (
	DeltaOK       DeltaClass = iota
	DeltaMismatch            // delta does not match the signed (or suffix-data) delta hash
	DeltaInvalid             // delta fails validation (no patches, oversize, disabled action, bad commitment)
)

func (c DeltaClass) String() string { return [...]string{"ok", "mismatch", "invalid"}[c] }

// OpType mirrors the four operation types.
type OpType string

// Operation types.
const (
	Create     OpType = "create"
	Update     OpType = "update"
	Recover    OpType = "recover"
	Deactivate OpType = "deactivate"
)

// Op is the symbolic descriptor of one anchored (or unpublished) operation.
type Op struct {
	ID   int
	Type OpType
	// RevealCommit is the commitment that the operation's reveal value hashes to; "" when the
	// operation cannot even be attributed to a commitment (reveal value does not match the key
	// in its signed data, or it does not parse).
	RevealCommit string
	// Authentic: the signed data carries a valid signature by the revealed key.
	Authentic bool
	// SuffixOK: (deactivate) the signed DID suffix is the DID's.
	SuffixOK bool
	// Parses: (create) the request parses and its suffix data is valid.
	Parses       bool
	NextUpdate   string
	NextRecovery string
	Delta        DeltaClass
	Patches      []workload.PatchDesc
	From, Until  int64
	// MaxDelta is the maximum operation time delta of the protocol version the operation was anchored under.
	MaxDelta int64

	Time, Number uint64
	Published    bool
	Origin       string
	Label        string
}

func (o *Op) String() string {
	return fmt.Sprintf("#%d %s@(%d,%d)%s", o.ID, o.Label, o.Time, o.Number, map[bool]string{true: "", false: " unpublished"}[o.Published])
}

// InWindow implements the anchoring-window rule of C05.
func (o *Op) InWindow() bool {
	if o.From == 0 && o.Until == 0 {
		return true
	}

	until := o.Until
	if o.From != 0 && until == 0 {
		// anchorFrom plus the maximum operation time delta, as a mathematical sum (no wrap-around: a huge delta means "never")
		until = SatAdd(o.From, o.MaxDelta)
	}

	t := int64(o.Time)

	return o.From <= t && t <= until
}

// State is the resolved state.
type State struct {
	Doc         Doc
	UpdateC     string
	RecoveryC   string
	Deactivated bool
	LastTime    uint64
	LastNumber  uint64
	LastPub     bool
	Origin      string
	Applied     []int // ids of applied operations, in order
	// LastFull is the id of the last applied create/recover/deactivate.
	LastFull int
}

func (s *State) String() string {
	return fmt.Sprintf("deactivated=%v upd=%s rec=%s doc{%s} applied=%v", s.Deactivated, tail(s.UpdateC), tail(s.RecoveryC), s.Doc, s.Applied)
}

func tail(s string) string {
	if len(s) > 6 {
		return s[len(s)-6:]
	}

	return s
}

// Order sorts operations: published before unpublished, then by transaction time, then number.
func Order(ops []*Op) []*Op {
	out := append([]*Op(nil), ops...)
	sort.SliceStable(out, func(i, j int) bool {
		a, b := out[i], out[j]
		if a.Published != b.Published {
			return a.Published
		}

		if a.Time != b.Time {
			return a.Time < b.Time
		}

		return a.Number < b.Number
	})

	return out
}

func after(o *Op, t, n uint64) bool {
	if !o.Published {
		return true
	}

	if o.Time != t {
		return o.Time > t
	}

	return o.Number > n
}

// Resolve computes the state the properties prescribe for a set of operations of one DID.
func Resolve(ops []*Op) (*State, error) {
	all := Order(ops)

	var st *State

	for _, o := range all {
		if o.Type != Create || !o.Parses {
			continue
		}

		st = &State{RecoveryC: o.NextRecovery, LastTime: o.Time, LastNumber: o.Number, LastPub: o.Published, Origin: o.Origin, Applied: []int{o.ID}, LastFull: o.ID}

		if o.Delta == DeltaOK {
			st.UpdateC = o.NextUpdate

			if d, ok := (Doc{}).Apply(o.Patches); ok {
				st.Doc = d
			}
		}

		break
	}

	if st == nil {
		return nil, fmt.Errorf("create operation not found")
	}

	// recovery chain: recover and deactivate operations
	consumed := map[string]bool{}

	for st.RecoveryC != "" {
		c := st.RecoveryC

		var applied *Op

		for _, o := range all {
			if (o.Type != Recover && o.Type != Deactivate) || o.RevealCommit != c || !o.Authentic {
				continue
			}

			// (commitments are compared by value: the same multihash may be written in more than one base64url spelling)
			if o.Type == Recover && (Canon(o.NextRecovery) == Canon(c) || consumed[Canon(o.NextRecovery)]) {
				continue
			}

			if o.Type == Deactivate && (!o.SuffixOK || !o.InWindow()) {
				continue
			}

			applied = o

			break
		}

		if applied == nil {
			break
		}

		consumed[Canon(c)] = true
		st.Applied = append(st.Applied, applied.ID)
		st.LastFull = applied.ID
		st.LastTime, st.LastNumber, st.LastPub = applied.Time, applied.Number, applied.Published

		if applied.Type == Deactivate {
			st.Doc, st.UpdateC, st.RecoveryC, st.Deactivated = Doc{}, "", "", true

			return st, nil
		}

		st.RecoveryC = applied.NextRecovery
		st.Origin = applied.Origin
		st.Doc, st.UpdateC = Doc{}, ""

		if applied.Delta == DeltaOK {
			st.UpdateC = applied.NextUpdate

			if applied.InWindow() {
				if d, ok := (Doc{}).Apply(applied.Patches); ok {
					st.Doc = d
				}
			}
		}
	}

	// update chain: only updates anchored strictly after the last applied create/recover (or unpublished)
	fullT, fullN, fullPub := st.LastTime, st.LastNumber, st.LastPub
	consumed = map[string]bool{}

	for st.UpdateC != "" {
		c := st.UpdateC

		var applied *Op

		for _, o := range all {
			if o.Type != Update || o.RevealCommit != c || !o.Authentic || !after(o, fullT, fullN) {
				continue
			}

			// a create/recover that is still unpublished will be anchored after everything that is published now: published
			// operations take precedence, so no published update follows it
			if !fullPub && o.Published {
				continue
			}

			if Canon(o.NextUpdate) == Canon(c) || consumed[Canon(o.NextUpdate)] || o.Delta != DeltaOK {
				continue
			}

			applied = o

			break
		}

		if applied == nil {
			break
		}

		consumed[Canon(c)] = true
		st.Applied = append(st.Applied, applied.ID)
		st.UpdateC = applied.NextUpdate
		st.LastTime, st.LastNumber, st.LastPub = applied.Time, applied.Number, applied.Published

		if applied.InWindow() {
			if d, ok := st.Doc.Apply(applied.Patches); ok {
				st.Doc = d
			}
		}
	}

	return st, nil
}

// Canon is the canonical base64url spelling of a commitment: a decoder that ignores line breaks and the unused bits of
// the last character accepts several spellings of one multihash. Text that does not decode stands for itself.
func Canon(c string) string {
	b, err := base64.RawURLEncoding.DecodeString(c)
	if err != nil {
		return c
	}

	return base64.RawURLEncoding.EncodeToString(b)
}

// Respell returns another spelling of the same commitment bytes (see Canon), or c itself when there is none it knows.
func Respell(c string) string {
	const alphabet = "ABCDEFGHIJKLMNOPQRSTUVWXYZabcdefghijklmnopqrstuvwxyz0123456789-_"

	if len(c)%4 == 0 || len(c) == 0 {
		return c[:len(c)/2] + "\n" + c[len(c)/2:] // no spare bits: a line break inside, which the decoder skips
	}

	// the last character carries spare bits (4 when two characters are left over, 2 when three): set the lowest one
	i := strings.IndexByte(alphabet, c[len(c)-1])
	if i < 0 {
		return c
	}

	return c[:len(c)-1] + string(alphabet[i^1])
}

// Describe renders a list of operations for traces.
func Describe(ops []*Op) string {
	var s []string
	for _, o := range ops {
		s = append(s, o.String())
	}

	return strings.Join(s, "; ")
}

// SatAdd adds a non-negative delta to an int64, saturating at the largest int64.
func SatAdd(a, delta int64) int64 {
	if delta > 0 && a > (1<<63-1)-delta {
		return 1<<63 - 1
	}

	return a + delta
}

// DeltaOf converts a protocol's maximum operation time delta (unsigned) to the signed range used for time arithmetic.
func DeltaOf(d uint64) int64 {
	if d > 1<<63-1 {
		return 1<<63 - 1
	}

	return int64(d)
}
