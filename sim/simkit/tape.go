// Package simkit is the deterministic-simulation kernel: the choice tape, the cooperative
// scheduler that runs real goroutines one at a time inside a testing/synctest bubble, the
// event trace and the tape shrinker.
package simkit

import (
	"math/rand/v2"
)

// Draw is one recorded decision.
type Draw struct {
	V     uint32 `json:"v"`
	N     int    `json:"n"`
	Label string `json:"l"`
}

// Tape is the single source of every decision in a run. In generation mode values come from a
// PCG stream seeded by the run seed; in replay mode they come from a recorded list and, once
// that list is exhausted, every draw yields 0 ("first enabled action / no fault / smallest
// value"), so that every tape – including a truncated or partially zeroed one – is a valid run.
type Tape struct {
	rng    *rand.Rand
	forced []uint32
	replay bool
	pos    int
	Rec    []Draw
	// KeepLabels controls whether labels are stored (they are only needed for replay files).
	KeepLabels bool
	off        bool
}

// NewRandomTape returns a generating tape.
func NewRandomTape(seed uint64) *Tape {
	return &Tape{rng: rand.New(rand.NewPCG(seed, 0x9e3779b97f4a7c15^seed))}
}

// NewReplayTape returns a tape replaying vals.
func NewReplayTape(vals []uint32) *Tape {
	return &Tape{forced: vals, replay: true, KeepLabels: true}
}

// Draw returns a value in [0,n). n<=1 consumes nothing.
func (t *Tape) Draw(n int, label string) int {
	if n <= 1 || t.off {
		return 0
	}

	var v uint32

	switch {
	case !t.replay:
		v = uint32(t.rng.Uint64N(uint64(n)))
	case t.pos < len(t.forced):
		v = t.forced[t.pos] % uint32(n)
	default:
		v = 0
	}

	t.pos++

	d := Draw{V: v, N: n}
	if t.KeepLabels {
		d.Label = label
	}

	t.Rec = append(t.Rec, d)

	return int(v)
}

// Off makes all further draws return 0 without recording (used while tearing a run down).
func (t *Tape) Off() { t.off = true }

// Values returns the recorded values.
func (t *Tape) Values() []uint32 {
	out := make([]uint32, len(t.Rec))
	for i, d := range t.Rec {
		out[i] = d.V
	}

	return out
}

// Chance is true with probability permille/1000; a zero draw is always false.
func (t *Tape) Chance(permille int, label string) bool {
	if permille <= 0 {
		return false
	}

	return t.Draw(1000, label) >= 1000-permille
}

// Range returns a value in [lo,hi].
func (t *Tape) Range(lo, hi int, label string) int {
	if hi <= lo {
		return lo
	}

	return lo + t.Draw(hi-lo+1, label)
}

// SplitMix64 derives per-run seeds from a master seed.
func SplitMix64(x uint64) uint64 {
	x += 0x9e3779b97f4a7c15
	z := x
	z = (z ^ (z >> 30)) * 0xbf58476d1ce4e5b9
	z = (z ^ (z >> 27)) * 0x94d049bb133111eb

	return z ^ (z >> 31)
}
