package simkit

import "time"

// Shrink minimises a failing tape. run replays a candidate and reports whether the *same*
// violation (same property, same oracle label) still occurs, returning the values actually
// consumed by that replay (so that unused tail entries disappear). Because an exhausted or
// zeroed draw means "default action / no fault / smallest value", deleting and zeroing entries
// removes operations, faults and context switches.
func Shrink(orig []uint32, run func(vals []uint32) (same bool, consumed []uint32), budget time.Duration, maxRuns int) (best []uint32, runs int) {
	deadline := time.Now().Add(budget)
	best = append([]uint32(nil), orig...)

	try := func(cand []uint32) bool {
		if runs >= maxRuns || time.Now().After(deadline) {
			return false
		}

		runs++

		same, consumed := run(cand)
		if !same {
			return false
		}

		if len(consumed) <= len(cand) {
			cand = consumed
		}

		best = trimZeros(cand)

		return true
	}

	// normalise: a replay of the original gives the consumed prefix
	try(best)

	for pass := 0; pass < 6; pass++ {
		before := cost(best)

		// 1. truncate the tail
		for n := len(best) / 2; n >= 1; n /= 2 {
			for len(best) > n && try(best[:len(best)-n]) {
			}
		}

		// 2. delete blocks
		for bs := 32; bs >= 1; bs /= 2 {
			for i := 0; i+bs <= len(best); {
				cand := append(append([]uint32(nil), best[:i]...), best[i+bs:]...)
				if !try(cand) {
					i += bs
				}
			}
		}

		// 3. zero blocks, then single entries
		for bs := 8; bs >= 1; bs /= 2 {
			for i := 0; i+bs <= len(best); i += bs {
				allZero := true

				for j := i; j < i+bs; j++ {
					if best[j] != 0 {
						allZero = false
					}
				}

				if allZero {
					continue
				}

				cand := append([]uint32(nil), best...)
				for j := i; j < i+bs; j++ {
					cand[j] = 0
				}

				try(cand)
			}
		}

		// 4. lower values
		for i := 0; i < len(best); i++ {
			for best[i] > 0 {
				cand := append([]uint32(nil), best...)
				cand[i] = best[i] / 2

				if !try(cand) {
					cand[i] = best[i] - 1
					if !try(cand) {
						break
					}
				}

				if i >= len(best) {
					break
				}
			}
		}

		if cost(best) >= before || runs >= maxRuns || time.Now().After(deadline) {
			break
		}
	}

	return best, runs
}

func trimZeros(v []uint32) []uint32 {
	n := len(v)
	for n > 0 && v[n-1] == 0 {
		n--
	}

	return append([]uint32(nil), v[:n]...)
}

func cost(v []uint32) uint64 {
	c := uint64(len(v)) << 32
	for _, x := range v {
		c += uint64(x)
	}

	return c
}
