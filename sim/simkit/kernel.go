package simkit

import (
	"crypto/sha256"
	"encoding/hex"
	"fmt"
	"hash"
	"hash/fnv"
	"runtime/debug"
	"sort"
	"strings"
	"sync"
	"sync/atomic"
	"testing/synctest"
)

// Action is something the outside world can do at this instant (advance the clock, deliver a
// tick or a ledger notification, let a client issue its next request, ...).
type Action struct {
	Label string
	Do    func()
}

type parkedTask struct {
	task  string
	label string
	ch    chan struct{}
	// ready, when set, says whether the task may be scheduled (blocking wait on a harness condition).
	ready func() bool
}

// Violation describes a failed oracle.
type Violation struct {
	Property string `json:"property"`
	Oracle   string `json:"oracle"`
	Detail   string `json:"detail"`
	Expected string `json:"expected,omitempty"`
	Actual   string `json:"actual,omitempty"`
	// Fingerprint is the stable structural cause used by the known-findings file.
	Fingerprint string `json:"fingerprint"`
}

func (v *Violation) Error() string {
	return fmt.Sprintf("%s/%s: %s", v.Property, v.Oracle, v.Detail)
}

// Kernel is the scheduler. Exactly one goroutine other than the root runs between two
// synctest.Wait calls of the root, so the Go runtime never chooses an interleaving.
type Kernel struct {
	T  *Tape
	Tr *Trace

	mu       sync.Mutex
	parked   []*parkedTask
	zombies  []*parkedTask
	cur      string
	inline   int
	draining atomic.Bool

	Steps     int
	Counters  map[string]int
	schedHash hash.Hash64
	Viol      *Violation
	// Props, when set, restricts which properties' violations are recorded (a world may serve several).
	Props map[string]bool
	// PanicProp is the property a panic inside a task is attributed to.
	PanicProp string
	// Cleanup stops repo-owned goroutines (writer loop, observer); used when a run is abandoned after a panic.
	Cleanup func()
}

// NewKernel creates a kernel over the given tape.
func NewKernel(t *Tape) *Kernel {
	return &Kernel{T: t, Tr: NewTrace(4000), Counters: map[string]int{}, schedHash: fnv.New64a(), cur: "root"}
}

// Count increments a named fault/probe counter.
func (k *Kernel) Count(name string) {
	if k.draining.Load() {
		return
	}

	k.Counters[name]++
}

// Cur returns the identity of the task that is running.
func (k *Kernel) Cur() string { return k.cur }

// SetCur sets the identity under which the next goroutine that parks is registered. Environment
// actions that wake a goroutine owned by /repo (writer loop, observer loop) call it first.
func (k *Kernel) SetCur(name string) { k.cur = name }

// Inline runs f on the scheduler goroutine with yields and faults disabled (oracle evaluation).
func (k *Kernel) Inline(f func()) {
	k.inline++
	prev := k.cur
	k.cur = "root"

	defer func() {
		k.inline--
		k.cur = prev
	}()

	f()
}

// IsInline reports whether the scheduler itself is executing repo code (no faults then).
func (k *Kernel) IsInline() bool { return k.inline > 0 || k.draining.Load() }

// Draining reports whether the run is being torn down.
func (k *Kernel) Draining() bool { return k.draining.Load() }

// Yield parks the calling goroutine until the scheduler releases it.
func (k *Kernel) Yield(label string) {
	if k.inline > 0 {
		return
	}

	k.mu.Lock()
	p := &parkedTask{task: k.cur, label: label, ch: make(chan struct{})}
	k.parked = append(k.parked, p)
	k.mu.Unlock()

	<-p.ch
}

// WaitUntil parks the calling task until cond holds; the scheduler does not consider the task
// enabled before that (a blocking wait on a harness-visible condition, e.g. "my operation is published").
func (k *Kernel) WaitUntil(label string, cond func() bool) {
	if k.inline > 0 {
		return
	}

	k.mu.Lock()
	p := &parkedTask{task: k.cur, label: label, ch: make(chan struct{}), ready: cond}
	k.parked = append(k.parked, p)
	k.mu.Unlock()

	<-p.ch
}

func (k *Kernel) enabled() []*parkedTask {
	k.mu.Lock()
	all := append([]*parkedTask(nil), k.parked...)
	k.mu.Unlock()

	out := all[:0:0]

	for _, p := range all {
		if p.ready == nil || k.draining.Load() || p.ready() {
			out = append(out, p)
		}
	}

	return out
}

// Draw draws from the tape on behalf of the running task.
func (k *Kernel) Draw(n int, label string) int {
	if k.IsInline() {
		return 0
	}

	return k.T.Draw(n, label)
}

// Fault decides whether the named fault fires now (rate in permille). Never fires inline or
// while draining; fired faults are counted.
func (k *Kernel) Fault(name string, permille int) bool {
	if k.IsInline() || permille <= 0 {
		return false
	}

	if k.T.Chance(permille, "fault:"+name) {
		k.Counters["fault:"+name]++

		return true
	}

	return false
}

// Go spawns a task. It must be called from the scheduler goroutine; it returns once the new
// goroutine is parked at its start point, so registration order is deterministic.
func (k *Kernel) Go(name string, f func()) {
	prev := k.cur
	k.cur = name

	go func() {
		defer func() {
			if r := recover(); r != nil {
				k.Fail(&Violation{Property: k.PanicProp, Oracle: "panic", Detail: fmt.Sprintf("task %s panicked: %v\n%s", name, r, debug.Stack()),
					Fingerprint: k.PanicProp + "/panic"})
			}
		}()

		k.Yield("start")
		f()
	}()

	synctest.Wait()

	k.cur = prev
}

// Settle waits until every other goroutine is blocked (used after starting a repo-owned goroutine).
func (k *Kernel) Settle() { synctest.Wait() }

// Parked returns the identities of parked tasks (sorted copy) – used by worlds to know whether
// e.g. the writer loop is idle.
func (k *Kernel) Parked() []string {
	k.mu.Lock()
	defer k.mu.Unlock()

	out := make([]string, len(k.parked))
	for i, p := range k.parked {
		out[i] = p.task
	}

	sort.Strings(out)

	return out
}

// IsParked reports whether a task with this identity is parked.
func (k *Kernel) IsParked(task string) bool {
	k.mu.Lock()
	defer k.mu.Unlock()

	for _, p := range k.parked {
		if p.task == task {
			return true
		}
	}

	return false
}

// ParkedAt reports whether some task other than `except` is parked at a seam whose label has the given suffix.
func (k *Kernel) ParkedAt(suffix, except string) bool {
	k.mu.Lock()
	defer k.mu.Unlock()

	for _, p := range k.parked {
		if p.task != except && strings.HasSuffix(p.label, suffix) {
			return true
		}
	}

	return false
}

// Quiesce releases parked tasks fairly (oldest first) until none is parked or max steps were
// taken; it returns true when nothing is parked any more. Used for the bounded-liveness phase
// after faults have stopped.
func (k *Kernel) Quiesce(max int, check func()) bool {
	for i := 0; i < max; i++ {
		synctest.Wait()

		if check != nil {
			k.Inline(check)
		}

		if k.Viol != nil {
			return false
		}

		en := k.enabled()
		if len(en) == 0 {
			return true
		}

		k.Steps++
		k.release(en[0])
	}

	return false
}

// Kill models the crash of a repo-owned goroutine: its parked entries are taken away from the scheduler,
// so it never runs again during the run (it is released only while draining, so that the bubble can end).
func (k *Kernel) Kill(task string) int {
	k.mu.Lock()
	defer k.mu.Unlock()

	keep := k.parked[:0:0]
	n := 0

	for _, p := range k.parked {
		if p.task == task {
			k.zombies = append(k.zombies, p)
			n++
		} else {
			keep = append(keep, p)
		}
	}

	k.parked = keep

	return n
}

// FirstLine cuts a message at its first newline (stack traces carry addresses and goroutine ids, which
// must stay out of the trace: the trace hash identifies the execution across processes).
func FirstLine(s string) string {
	if i := strings.IndexByte(s, '\n'); i >= 0 {
		return s[:i]
	}

	return s
}

// Fail records the first violation.
func (k *Kernel) Fail(v *Violation) {
	if k.draining.Load() {
		return
	}

	if k.Props != nil && !k.Props[v.Property] && v.Property != "HARNESS" {
		k.Counters["other-property-violation:"+v.Property]++
		k.Counters["other:"+v.Fingerprint]++

		return
	}

	if k.Viol == nil && !k.draining.Load() {
		k.Viol = v
		k.Tr.Logf("VIOLATION %s", FirstLine(v.Error()))
	}
}

// Run is the scheduler loop. env lists the environment actions enabled now; check evaluates
// invariants after every step. It returns when a violation was recorded, when nothing is
// enabled, or after max steps.
func (k *Kernel) Run(max int, env func() []Action, check func()) {
	for ; k.Steps < max; k.Steps++ {
		synctest.Wait()

		if check != nil {
			k.Inline(check)
		}

		if k.Viol != nil {
			return
		}

		acts := env()
		parked := k.enabled()

		n := len(parked) + len(acts)
		if n == 0 {
			return
		}

		i := k.T.Draw(n, "sched")
		if i < len(parked) {
			k.release(parked[i])
		} else {
			a := acts[i-len(parked)]
			k.note("env", a.Label)
			k.Tr.Logf("#%d env %s", k.Steps, a.Label)
			a.Do()
		}
	}

	synctest.Wait()

	if check != nil && k.Viol == nil {
		k.Inline(check)
	}
}

func (k *Kernel) note(task, label string) {
	k.schedHash.Write([]byte(task))
	k.schedHash.Write([]byte{0})
	k.schedHash.Write([]byte(label))
	k.schedHash.Write([]byte{1})
}

func (k *Kernel) release(p *parkedTask) {
	k.mu.Lock()
	for i, q := range k.parked {
		if q == p {
			k.parked = append(k.parked[:i], k.parked[i+1:]...)

			break
		}
	}
	k.mu.Unlock()

	k.cur = p.task
	k.note(p.task, p.label)
	k.Tr.Logf("#%d run %s @%s", k.Steps, p.task, p.label)
	close(p.ch)
}

// ScheduleHash identifies the interleaving: the sequence of (task, seam) pairs chosen.
func (k *Kernel) ScheduleHash() uint64 { return k.schedHash.Sum64() }

// Drain tears the run down deterministically: faults and draws are switched off and parked
// tasks are released one at a time (first parked first) until none is left. stop is called
// first and should make workload loops return and stop repo-owned goroutines.
func (k *Kernel) Drain(stop func()) {
	synctest.Wait()
	k.draining.Store(true)
	k.T.Off()
	k.Tr.Off()

	if stop != nil {
		k.Inline(stop)
	}

	// crashed goroutines may now run to their end
	k.mu.Lock()
	k.parked = append(k.parked, k.zombies...)
	k.zombies = nil
	k.mu.Unlock()

	for i := 0; i < 100000; i++ {
		synctest.Wait()

		k.mu.Lock()
		if len(k.parked) == 0 {
			k.mu.Unlock()

			return
		}

		p := k.parked[0]
		k.parked = k.parked[1:]
		k.mu.Unlock()

		k.cur = p.task
		close(p.ch)
	}

	// last resort: let everything go
	k.inline++

	k.mu.Lock()
	ps := k.parked
	k.parked = nil
	k.mu.Unlock()

	for _, p := range ps {
		close(p.ch)
	}

	synctest.Wait()
}

// Trace is the human-readable event log of a run; its hash identifies the execution.
type Trace struct {
	lines []string
	max   int
	h     hash.Hash
	n     int
	off   bool
}

// NewTrace keeps at most max lines (all lines are hashed).
func NewTrace(max int) *Trace { return &Trace{max: max, h: sha256.New()} }

// Off stops logging.
func (tr *Trace) Off() { tr.off = true }

// Logf appends a line.
func (tr *Trace) Logf(format string, args ...interface{}) {
	if tr.off {
		return
	}

	s := fmt.Sprintf(format, args...)
	tr.h.Write([]byte(s))
	tr.h.Write([]byte{'\n'})
	tr.n++

	if len(tr.lines) < tr.max {
		tr.lines = append(tr.lines, s)
	}
}

// Lines returns the kept lines.
func (tr *Trace) Lines() []string { return tr.lines }

// Len is the number of lines logged.
func (tr *Trace) Len() int { return tr.n }

// Hash returns the hex SHA-256 of the whole trace.
func (tr *Trace) Hash() string { return hex.EncodeToString(tr.h.Sum(nil)) }
